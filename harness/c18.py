"""C18 - The source distribution contains everything the build reads from srcdir.

Stages: proof (coq/props/C18.v over coq/theories/Graph/Dist.v); W-correspondence: generated abstract build scripts over
every file-creating builtin (with submodules, options.bfg, find_files variants, dist=False markers, build-dir files,
objects passed back in) are rendered to real build.bfg/options.bfg trees, executed in-process by the real
bfg9000.build.configure_build (fresh, and again with a pre-filled find cache = what a lazy regeneration sees), and
build.sources(), the doppel archive command and the srcdir inputs of every edge are compared with the model; system
level (direct oracle): real `bfg9000 configure-into` -> Makefile -> real `make dist` (real doppel) -> tar member list;
every $(srcdir) path the Makefile mentions and every script opened during configure (audit hook) must be a member or be
marked dist=False, dist=False-only files must be absent, nothing but srcdir entries, relative names, -C srcdir; the
unpacked archive configures to the same Makefile modulo paths; edit histories of the searched directories (no build.bfg
edit: a file added to / removed from the found side, the extra= side, the not_now side of filter_by_platform, or no side
of a cached find call, at top level, below it, in a new directory, in a submodule's directory): after every edit
`make dist` - which lets the Makefile regenerate itself through `bfg9000 regenerate --lazy` (find_check_cache decides
whether it really does) - must pack exactly the members a fresh configure + make dist of the edited tree packs, every
file added on one of the three sides of a dist=True call is a member, no untouched member is dropped (regression for
/repo 491a34f)."""
import json
import os
import random
import re
import shutil
import subprocess
import sys
import tarfile

from . import common, project
from .common import d_str, d_bool, d_list

LEVEL = 'proof'
RULE = ('abstract scripts: 4..14 statements per script file drawn from 40 statement shapes over all file-creating '
        'builtins (generic_file source_file header_file module_def_file auto_file directory header_directory man_page '
        'precompiled_header object_file executable shared_library static_library library, each with dist True/False, '
        'name given as string, srcdir Path, builddir Path or previously created object), directory/header_directory '
        'with include= (find), find_files/find_paths with extra/exclude/filter/type/cache/dist variants, extra_dist, '
        'object_file/object_files/executable/libraries with files=/includes=/libs=/pch=/extra_deps= given as strings or '
        'objects, copy_file(s), man_page with compression, command/build_step with files= and node arguments, install/'
        'default/alias/test, 0..3 (nested) submodules, options.bfg absent/present/with its own submodule; file names '
        'with blanks, quotes, +=@ and non-ASCII characters. Every script is run fresh and with a pre-filled find cache. '
        'Regeneration projects (system stage) have a find_files call with extra= at top level and one with '
        'filter_by_platform in a submodule, and an edit history of about 8 single-file edits of searched directories '
        '(per forced call one edit changing only the extra/not_now list, one changing the found list, one of any kind; '
        'two edits of another cached call), make dist after each edit compared with a fresh configure of the edited tree. '
        'A case is non-trivial when it registers at least 3 files; distinct by the canonical text of the script.')
TRUSTED = ('direct oracle: Makefile text decoder for $(srcdir) occurrences (single-quoted shell words and backslash-'
           'escaped rule-header words), cross-checked on every project against the references the generator knows',
           'audit hook (sys.addaudithook "open") in the configure child process to list the scripts read',
           'real GNU Make 4.3, real doppel (/venv/bin/doppel), Python tarfile to list members',
           'find results (walk events) are inputs of the model: recorded from the real _find_files (C11 covers them)',
           'path resolution of names relative to the script directory is done by the harness for plain relative names '
           '(C12/C19 cover relpath)')
EXPLANATION = ('Proof on the script model (every creation path registers or marks), differential tie of the model to the '
               'real builtins, and an end-to-end oracle on the archive itself.')

# ----------------------------------------------------------------------------- names
# '=' is left out: GNU Make reads `t: a=b.c` as a target-specific variable assignment (a C04 matter, not C18)
SPECIALS = [' ', "'", '+', '@', 'é', '-']


class Names:
    def __init__(self, rng, special_rate=0.25):
        self.rng, self.n, self.rate = rng, 0, special_rate

    def new(self, stem, ext='', plain=False):
        self.n += 1
        s = '%s%d' % (stem, self.n)
        if not plain and self.rng.random() < self.rate:
            s = stem + self.rng.choice(SPECIALS) + str(self.n)
        return s + ext


def norm(d, name):
    name = name.rstrip('/')
    return name if d == '' else d + '/' + name


# ----------------------------------------------------------------------------- abstract scripts
# arg: ('name', name)            string relative to the script directory
#      ('spath', name)           Path(<resolved>, Root.srcdir)
#      ('bpath', name)           Path(name, Root.builddir)
#      ('obj', label)            N[label]
#      ('objs', label)           *N[label]  (the list a find returned)
FILE_KINDS = {
    # kind: (extension, python type tag of the result)
    'generic_file': ('.txt', 'file'), 'source_file': ('.c', 'source'), 'header_file': ('.h', 'header'),
    'module_def_file': ('.def', 'mdef'), 'auto_file': (None, None), 'directory': ('', 'dir'),
    'header_directory': ('', 'hdrdir'), 'man_page': ('.1', 'man'), 'precompiled_header': ('.gch', 'pch'),
    'object_file': ('.o', 'object'), 'executable': ('', 'exe'), 'shared_library': ('.so', 'libsh'),
    'static_library': ('.a', 'libst'), 'library': ('.a', 'libst'),
}
KIND_IDS = list(FILE_KINDS)
LIBTAGS = ('libsh', 'libst', 'libany')
AUTO_EXT = [('.c', 'source'), ('.h', 'header'), ('.dat', 'file'), ('/', 'dir'), ('.cpp', 'source')]


class Gen:
    """Generates one project: scripts {dir: [stmt]}, the file tree, and what the generator knows about each path."""

    def __init__(self, rng, size=1.0, special_rate=0.25, regen=False, sysonly=False):
        self.rng = rng
        self.sysonly = sysonly   # also shapes the script model does not cover (system stage only)
        self.outside = []        # files next to the source directory (named by absolute-path strings)
        self.absin = []          # srcdir files that some edge names by an absolute-path string
        self.names = Names(rng, special_rate)
        self.size = size
        self.tree = {}          # relpath -> content (files to create); directories as key ending in '/'
        self.scripts = {}       # dir -> list of stmts
        self.opt_scripts = {}   # dir -> text of options.bfg
        self.label = 0
        self.objs = []          # (label, tag, root)  root in 'src','build'
        self.nodist = set()     # srcdir paths created with dist=False
        self.nodist_dirs = set()  # directories searched by a find call with dist=False
        self.withdist = set()   # srcdir paths created with dist (or by an Edge string)
        self.refs = set()       # srcdir paths an edge consumes (generator's view; cross-check of the decoder)
        self.listed = set()     # find found/extra, extra_dist entries with dist
        self.finds = 0
        self.regen = regen
        self.regen_find = None  # directory of the first forced find (kept for old replays)
        self._specs = []        # (script dir, spec) of every find / include= call: the sites of the edit histories
        self.sites = []
        self.history = None
        self.hseed = 0

    # -- helpers
    def lab(self):
        self.label += 1
        return self.label

    def touch(self, d, name, content=None):
        p = norm(d, name)
        if name.endswith('/'):
            self.tree[p + '/'] = None
        else:
            self.tree[p] = content if content is not None else '/* %s */\n' % p.replace('*/', '')
        return p

    def mark(self, path, dist, root='src'):
        if root != 'src':
            return
        (self.withdist if dist else self.nodist).add(path)

    def tag_of(self, label):
        return [o[1] for o in self.objs if o[0] == label][0]

    def pick_obj(self, tags, roots=('src', 'build')):
        c = [o for o in self.objs if o[1] in tags and o[2] in roots]
        return self.rng.choice(c) if c else None

    def name_arg(self, d, name, allow_spath=True):
        """A fresh srcdir file given as a string or (sometimes) as a srcdir Path object."""
        if allow_spath and self.rng.random() < 0.15:
            return ('spath', norm(d, name) + ('/' if name.endswith('/') else ''))
        return ('name', name)

    def new_src(self, d, stem, ext, dist=True, ref=False):
        name = self.names.new(stem, ext)
        p = self.touch(d, name)
        self.mark(p, dist)
        if ref:
            self.refs.add(p)
        return self.name_arg(d, name), p

    # -- statements
    def st_file(self, d):
        kind = self.rng.choice(KIND_IDS)
        ext, tag = FILE_KINDS[kind]
        dist = self.rng.random() < 0.75
        r = self.rng.random()
        lab = self.lab()
        if kind == 'auto_file':
            ext, tag = self.rng.choice(AUTO_EXT)
        if r < 0.12:
            # build-directory path: never registered
            name = self.names.new('libb' if tag in LIBTAGS else 'b', ext if ext != '/' else '', plain=True)
            self.objs.append((lab, tag, 'build'))
            return {'op': 'file', 'kind': kind, 'arg': ('bpath', name), 'dist': dist, 'label': lab}
        if r < 0.16 and kind in ('generic_file', 'source_file', 'header_file', 'auto_file'):
            # absolute path outside the project: never registered
            self.objs.append((lab, tag if tag != 'dir' else 'file', 'abs'))
            return {'op': 'file', 'kind': kind, 'arg': ('apath', '/nonexistent/c18/a%d%s' % (lab, ext.rstrip('/'))),
                    'dist': dist, 'label': lab}
        if r < 0.22 and kind not in ('auto_file', 'man_page'):
            o = self.pick_obj(LIBTAGS if kind == 'library' else (tag,))
            if o:
                # an existing object of the same type: returned as is
                self.objs.append((lab, tag, o[2]))
                return {'op': 'file', 'kind': kind, 'arg': ('obj', o[0]), 'dist': dist, 'label': lab}
        name = self.names.new('lib' + kind[0] if tag in LIBTAGS else kind[0], ext)
        if kind in ('directory', 'header_directory') or ext == '/':
            p = self.touch(d, name.rstrip('/') + '/')
            self.touch(d, name.rstrip('/') + '/inner.h')
        else:
            p = self.touch(d, name)
        if r > 0.9 and self.nodist and kind == 'generic_file':
            # re-create a path that was marked dist=False earlier, now with dist
            p = self.rng.choice(sorted(self.nodist))
            self.mark(p, dist)
            self.objs.append((lab, tag, 'src'))
            return {'op': 'file', 'kind': kind, 'arg': ('spath', p), 'dist': dist, 'label': lab}
        self.mark(p, dist)
        self.objs.append((lab, tag, 'src'))
        return {'op': 'file', 'kind': kind, 'arg': self.name_arg(d, name), 'dist': dist, 'label': lab}

    def find_spec(self, d, hdr=False, star=False):
        """A dedicated directory with matching / extra / excluded / other-platform / unrelated entries."""
        self.finds += 1
        fd = self.names.new('fd')
        ext = '.h' if hdr else '.c'
        deep = self.rng.random() < 0.4
        spec = {'dir': fd, 'pattern': ('**/*' if deep else '*') + ('' if star else ext),
                'extra': self.rng.choice([None, '*.hpp', '*.hpp']), 'exclude': self.rng.choice([None, '*_skip*']),
                # a lambda filter makes the whole find cache unserialisable (no cache hits on regeneration): the
                # regeneration projects do without
                'filter': self.rng.choice([None, None, 'platform'] + ([] if self.regen else ['lambda'])),
                'type': None, 'cache': self.rng.random() < 0.8, 'dist': self.rng.random() < 0.8}
        if star:
            spec['type'] = self.rng.choice(['*', 'f', 'd', None])
        names = [self.names.new('m', ext) for _ in range(self.rng.randint(0, 3))]
        names += [self.names.new('e', '.hpp') for _ in range(self.rng.randint(0, 2))]
        names += [self.names.new('x', '_skip' + ext)]
        names += [self.names.new('p', '_windows' + ext)] if self.rng.random() < 0.6 else []
        names += ['other.txt']
        if not spec['dist']:
            self.nodist_dirs.add(norm(d, fd))
        self.touch(d, fd + '/')
        for n in names:
            self.touch(d, fd + '/' + n)
        spec['_names'], spec['_deep'] = names, []
        if deep or self.rng.random() < 0.3:
            self.touch(d, fd + '/deep/')
            spec['_deep'] = [self.names.new('m', ext), self.names.new('e', '.hpp')]
            for n in spec['_deep']:
                self.touch(d, fd + '/deep/' + n)
        self._specs.append((d, spec))
        return spec

    def st_find(self, d, force=None):
        spec = self.find_spec(d, star=self.rng.random() < 0.25)
        lab = self.lab()
        if force and spec['cache'] and spec['filter'] != 'lambda' and \
                spec['type'] in (None, 'f') and spec['pattern'].endswith('.c'):
            # a site every edit history can use: it has an extra= side ('extra') or a not_now filter ('platform')
            if force == 'extra':
                spec['extra'] = '*.hpp'
                extra_name = 'always.hpp'
            else:
                spec['filter'] = 'platform'
                extra_name = 'always_windows.c'
            spec['dist'] = True
            spec['forced'] = force
            self.nodist_dirs.discard(norm(d, spec['dir']))
            self.touch(d, spec['dir'] + '/' + extra_name)
            spec['_names'].append(extra_name)
            if self.regen_find is None:
                self.regen_find = norm(d, spec['dir'])
        st = {'op': 'find', 'spec': spec, 'paths': self.rng.random() < 0.2, 'label': lab,
              'file_type': self.rng.choice([None, None, 'source_file', 'generic_file'])}
        if spec['type'] == 'f' and st['file_type'] == 'source_file':
            st['file_type'] = None
        if spec['type'] in ('*', 'd') and st['paths']:
            st['paths'] = False
        linkable = spec['pattern'].endswith('.c') and spec['type'] in (None, 'f') and \
            (st['paths'] or st['file_type'] in (None, 'source_file'))
        self.objs.append((lab, 'found' if linkable else 'foundany', 'src'))
        return st

    def st_dirinc(self, d):
        hdr = self.rng.random() < 0.5
        spec = self.find_spec(d, hdr=hdr, star=not hdr and self.rng.random() < 0.5)
        spec['type'] = None
        lab = self.lab()
        dist = spec['dist']
        p = norm(d, spec['dir'])
        self.mark(p, dist)
        self.objs.append((lab, 'hdrdir' if hdr else 'dir', 'src'))
        return {'op': 'dirinc', 'hdr': hdr, 'spec': spec, 'label': lab}

    def st_extra_dist(self, d):
        files, dirs = [], []
        for _ in range(self.rng.randint(0, 2)):
            a, p = self.new_src(d, 'README', '')
            self.listed.add(p)
            files.append(a)
        for _ in range(self.rng.randint(0, 2)):
            dn = self.names.new('data')
            self.touch(d, dn + '/')
            for n in ('x.bin', 'y.bin'):
                self.listed.add(self.touch(d, dn + '/' + n))
            self.touch(d, dn + '/nested/')
            self.listed.add(norm(d, dn + '/nested'))
            self.touch(d, dn + '/nested/z.bin')
            self.listed.add(norm(d, dn))
            self.withdist.add(norm(d, dn))
            dirs.append(('name', dn))
        return {'op': 'extra_dist', 'files': files, 'dirs': dirs}

    def dep_args(self, d, n=None):
        """Extra dependencies of an edge (extra_deps= / extra_compile_deps= / deps= of alias) in every spelling
        Edge.__init__ accepts: a file object created earlier, a plain string, a srcdir Path object, an absolute-path
        string naming a file below the source directory, an absolute-path string naming a file outside of it."""
        out = []
        for _ in range(self.rng.randint(0, 2) if n is None else n):
            o = self.pick_obj(('file', 'source', 'header')) if self.rng.random() < 0.3 else None
            if o:
                out.append(('obj', o[0]))
                continue
            form = self.rng.choice(['name', 'name', 'name', 'spath', 'spath', 'absin', 'absout'])
            if form == 'absout':
                # outside the source tree: root = absolute, never a source, never a member
                name = self.names.new('outdep', '.txt', plain=True)
                self.outside.append(name)
                out.append(('absout', name))
                continue
            # Edge.make resolves extra_deps strings against the srcdir root, not the script directory
            name = self.names.new('dep', '.txt')
            if self.rng.random() < 0.15:
                name = self.names.new('depdir') + '/'
            p = self.touch('', name)
            if form == 'absin':
                # the script spells the file by its absolute path: root = absolute, written as an absolute path
                out.append(('absin', name))
                self.absin.append(p)
                continue
            self.mark(p, True)
            self.refs.add(p)
            out.append((form, name))
        return out

    def inc_args(self, d):
        out = []
        for _ in range(self.rng.randint(0, 2)):
            r = self.rng.random()
            o = self.pick_obj(('hdrdir',)) if r < 0.3 else (self.pick_obj(('header',), roots=('src',)) if r < 0.45 else None)
            if o:
                out.append(('obj', o[0]))
            else:
                dn = self.names.new('inc')
                self.touch(d, dn + '/')
                self.touch(d, dn + '/api.h')
                self.mark(norm(d, dn), True)
                self.refs.add(norm(d, dn))
                out.append(self.name_arg(d, dn + '/') if self.rng.random() < 0.3 else ('name', dn))
        return out

    def src_args(self, d, lo=1, hi=3):
        out = []
        for _ in range(self.rng.randint(lo, hi)):
            r = self.rng.random()
            o = None
            if r < 0.2:
                o = self.pick_obj(('source',))
            elif r < 0.3:
                o = self.pick_obj(('object',))
            elif r < 0.4:
                o = self.pick_obj(('found',))
                if o:
                    if ('objs', o[0]) not in out:
                        out.append(('objs', o[0]))
                    continue
            if o and ('obj', o[0]) in out:
                o = None
            if o:
                out.append(('obj', o[0]))
            else:
                out.append(self.new_src(d, 's', self.rng.choice(['.c', '.c', '.cpp']), ref=True)[0])
        if all(a[0] == 'objs' for a in out):
            # a find may return nothing: a link needs at least one file
            out.append(self.new_src(d, 's', '.c', ref=True)[0])
        return out

    def st_object(self, d):
        lab = self.lab()
        o = self.pick_obj(('source',)) if self.rng.random() < 0.25 else None
        f = ('obj', o[0]) if o else self.new_src(d, 's', '.c', ref=True)[0]
        pch = None
        if self.rng.random() < 0.2:
            pch = self.new_src(d, 'pre', '.h', ref=True)[0]
        st = {'op': 'object', 'file': f, 'lang': self.rng.choice([None, None, 'c']), 'includes': self.inc_args(d),
              'pch': pch, 'deps': self.dep_args(d), 'label': lab, 'name': bool(o) or self.rng.random() < 0.5}
        self.objs.append((lab, 'object', 'build'))
        return st

    def st_objects(self, d):
        lab = self.lab()
        self.objs.append((lab, 'objects', 'build'))
        return {'op': 'objects', 'files': [self.new_src(d, 's', '.c', ref=True)[0] for _ in range(self.rng.randint(1, 3))],
                'includes': self.inc_args(d), 'label': lab}

    def st_pch(self, d):
        lab = self.lab()
        src = self.new_src(d, 'pchsrc', '.c', ref=True)[0] if self.rng.random() < 0.3 else None
        st = {'op': 'pch', 'file': self.new_src(d, 'pre', '.h', ref=True)[0], 'source': src, 'label': lab,
              'includes': self.inc_args(d)}
        self.objs.append((lab, 'pchbuilt', 'build'))
        return st

    def st_link(self, d):
        lab = self.lab()
        kind = self.rng.choice(['executable', 'executable', 'static_library', 'shared_library', 'library'])
        libs = []
        for _ in range(self.rng.randint(0, 2)):
            o = self.pick_obj(LIBTAGS)
            if o and self.rng.random() < 0.7 and ('obj', o[0]) not in libs:
                libs.append(('obj', o[0]))
            else:
                libs.append(self.new_src(d, 'libq', '.a', ref=True)[0])
        pch = None
        files = self.src_args(d)
        if self.rng.random() < 0.2:
            o = self.pick_obj(('pchbuilt',))
            if o:
                pch = ('obj', o[0])
            elif len(files) == 1 and files[0][0] in ('name', 'spath') and files[0][1].endswith('.c'):
                pch = self.new_src(d, 'pre', '.h', ref=True)[0]
        # object files passed as objects are not compiled again: includes=/pch= are then never converted
        compiles = any(a[0] in ('name', 'spath') or (a[0] == 'obj' and self.tag_of(a[1]) == 'source') for a in files)
        if not compiles:
            pch = None
        st = {'op': 'link', 'kind': kind, 'files': files, 'includes': self.inc_args(d) if compiles else [], 'libs': libs,
              'pch': pch, 'deps': self.dep_args(d), 'label': lab}
        if self.sysonly and compiles and self.rng.random() < 0.35:
            # dependencies of every compile step of the link (not in the script model: system stage only)
            st['cdeps'] = self.dep_args(d, n=self.rng.randint(1, 2))
        self.objs.append((lab, {'executable': 'exe', 'shared_library': 'libsh', 'static_library': 'libst',
                                'library': 'libany'}[kind], 'build'))
        return st

    def st_copy(self, d):
        lab = self.lab()
        o = self.pick_obj(('file', 'header', 'source'), roots=('src',)) if self.rng.random() < 0.3 else None
        a = ('obj', o[0]) if o else self.new_src(d, 'cp', '.dat', ref=True)[0]
        st = {'op': 'copy', 'arg': a, 'rename': bool(o) or self.rng.random() < 0.3, 'deps': self.dep_args(d), 'label': lab,
              'many': self.rng.random() < 0.2 and not o}
        self.objs.append((lab, 'file', 'build'))
        return st

    def st_manz(self, d):
        lab = self.lab()
        self.objs.append((lab, 'manz', 'build'))
        dist = self.rng.random() < 0.8
        name = self.names.new('page', '.%d' % self.rng.randint(1, 8))
        p = self.touch(d, name)
        self.mark(p, dist)
        self.refs.add(p)
        return {'op': 'manz', 'arg': ('name', name), 'dist': dist, 'label': lab}

    def st_command(self, d):
        step = self.rng.random() < 0.6
        nodes = []
        for _ in range(self.rng.randint(0, 2)):
            o = self.pick_obj(('file', 'source', 'header'))
            if o:
                nodes.append(('obj', o[0]))
        pre = []
        if self.rng.random() < 0.7:
            name = self.names.new('in', '.c.in')
            p = self.touch(d, name)
            dist = self.rng.random() < 0.85
            self.mark(p, dist)
            self.refs.add(p)
            flab = self.lab()
            pre.append({'op': 'file', 'kind': 'source_file', 'arg': ('name', name), 'dist': dist, 'label': flab})
            self.objs.append((flab, 'srcnolang', 'src'))
            nodes.append(('obj', flab))
        files = [self.new_src(d, 'cf', '.dat', ref=True)[0] for _ in range(self.rng.randint(0, 2))]
        deps = self.dep_args(d)
        lab = self.lab()
        if step:
            self.objs.append((lab, 'source', 'build'))
        else:
            self.objs.append((lab, 'phony', 'build'))
        return pre + [{'op': 'command', 'step': step, 'nodes': nodes, 'files': files,
                       'deps': deps, 'label': lab, 'out': self.names.new('gen', '.c', plain=True)}]

    def st_alias(self, d):
        lab = self.lab()
        deps = self.dep_args(d, n=self.rng.randint(1, 3))
        self.objs.append((lab, 'phony', 'build'))
        return {'op': 'aliasdeps', 'deps': deps, 'label': lab, 'name': self.names.new('al', plain=True)}

    def st_misc(self, d):
        o = self.pick_obj(('exe', 'libsh', 'libst', 'header', 'hdrdir', 'dir', 'man', 'file'))
        if not o:
            return None
        op = self.rng.choice(['install', 'default', 'alias', 'test'])
        if op == 'install' and o[1] in ('file', 'dir'):
            op = 'default'
        if op == 'test' and not (o[1] == 'exe' and o[2] == 'build'):
            op = 'default'
        return {'op': 'misc', 'fn': op, 'arg': ('obj', o[0]), 'name': self.names.new('al', plain=True)}

    MENU = [('st_file', 8), ('st_find', 3), ('st_dirinc', 2), ('st_extra_dist', 1), ('st_object', 2), ('st_objects', 1),
            ('st_pch', 1), ('st_link', 4), ('st_copy', 2), ('st_manz', 1), ('st_command', 2), ('st_misc', 2), ('st_alias', 1)]

    def gen_script(self, d, depth, force=None):
        stmts = []
        n = max(2, int(self.rng.randint(4, 14) * self.size))
        fns = [f for f, w in self.MENU for _ in range(w)]
        nsub = self.rng.choice([0, 1, 1, 2, 3]) if depth == 0 else (1 if depth == 1 and self.rng.random() < 0.3 else 0)
        if force and depth == 0:
            nsub = max(nsub, 1)     # the regeneration projects have a forced site in a sub-directory script as well
        sub_at = sorted(self.rng.randint(0, n) for _ in range(nsub))
        sub_force = 'platform' if (force and depth == 0) else None
        if force:
            stmts.append(self.st_find(d, force))
            k = 0
            while not stmts[-1]['spec'].get('forced') and k < 50:
                self.objs.pop()
                self._specs.pop()       # the directory stays in the tree, but no call searches it: not a site
                stmts[-1] = self.st_find(d, force)
                k += 1
        for i in range(n + 1):
            while sub_at and sub_at[0] == i:
                sub_at.pop(0)
                sd = self.names.new('sub')
                stmts.append({'op': 'sub', 'dir': sd})
                self.gen_script(norm(d, sd), depth + 1, force=sub_force)
                sub_force = None
            if i < n:
                st = getattr(self, self.rng.choice(fns))(d)
                if isinstance(st, list):
                    stmts.extend(st)
                elif st:
                    stmts.append(st)
        self.scripts[d] = stmts
        self.touch(d, 'build.bfg', '')

    def generate(self):
        self.gen_script('', 0, force='extra' if self.regen else None)
        r = self.rng.random()
        if r < 0.75:
            self.opt_scripts[''] = "argument('foo', default='x')\n"
            if r < 0.35:
                od = self.names.new('optsub')
                self.opt_scripts[''] += 'submodule(%r)\n' % od
                self.opt_scripts[od] = "argument('bar', default='y')\n"
        self.version = self.rng.choice(['1.0', '2.3.4', None])
        self.sites = [site_of(d, spec) for d, spec in self._specs]
        if self.regen:
            self.hseed = self.rng.getrandbits(32)
        return self


# ----------------------------------------------------------------------------- edit histories of searched directories
def site_of(d, spec):
    """What an edit history needs to know about one find_files / find_paths / include= call."""
    return {'dir': norm(d, spec['dir']), 'pattern': spec['pattern'], 'extra': spec['extra'], 'exclude': spec['exclude'],
            'filter': spec['filter'], 'type': spec['type'], 'cache': spec['cache'], 'dist': spec['dist'],
            'names': list(spec.get('_names', [])), 'deep': list(spec.get('_deep', [])), 'forced': spec.get('forced')}


def site_candidates(site, tag):
    """Every single edit of the site's directory the histories draw from: {'kind': add|remove, 'path', 'side', 'expect',
    'group'}.  side = which list of the find result the file belongs to as far as the generator knows (found / extra =
    matched by extra= only / notnow = matched by the pattern but put off by filter_by_platform / none); expect = True
    when the file must be a member afterwards (dist=True call and the file is on one of the three sides).  group:
    'extra-only' edits leave the found list as it is, 'found' edits change it, 'other' edits change neither list."""
    D, pat = site['dir'], site['pattern']
    recursive = pat.startswith('**/')
    ext = pat.split('/')[-1][1:]            # '.c' / '.h' / '' (pattern *)
    cext = ext or '.c'
    files_ok = site['type'] in (None, 'f', '*')
    plat = site['filter'] == 'platform'
    has_extra = bool(site['extra']) and files_ok
    out = []

    def side_of(name, below=False):
        if not files_ok or (below and not recursive):
            return 'none'
        if site['exclude'] and '_skip' in name:
            return 'none'
        if ext == '' or name.endswith(ext):
            return 'notnow' if (plat and '_windows' in name) else 'found'
        if has_extra and name.endswith('.hpp'):
            # extra= is a name glob: it applies wherever the walk gets to
            return 'extra'
        return 'none'

    def group_of(side):
        return {'found': 'found', 'extra': 'extra-only', 'notnow': 'extra-only', 'none': 'other'}[side]

    def new(rel, side):
        out.append({'kind': 'add', 'path': norm(D, rel), 'side': side, 'group': group_of(side), 'dist': site['dist'],
                    'expect': True if (site['dist'] and side != 'none') else None})

    new('znew_%s%s' % (tag, cext), side_of('znew' + cext))
    new('znew_%s.hpp' % tag, side_of('znew.hpp'))
    new('znew_%s_windows%s' % (tag, cext), side_of('znew_windows' + cext))
    new('znew_%s.unmatched' % tag, side_of('znew.unmatched'))
    new('znew_%s_skip%s' % (tag, cext), side_of('znew_skip' + cext))
    if site['deep']:
        new('deep/znew_%s%s' % (tag, cext), side_of('znew' + cext, below=True))
        new('deep/znew_%s.hpp' % tag, side_of('znew.hpp', below=True))
    new('znewdir_%s/inner%s' % (tag, cext), side_of('inner' + cext, below=True))
    for n in site['names']:
        sd = side_of(n)
        if n != 'other.txt' or sd != 'none':
            out.append({'kind': 'remove', 'path': norm(D, n), 'side': sd, 'group': group_of(sd), 'dist': site['dist'],
                        'expect': None})
    for n in site['deep']:
        sd = side_of(n, below=True)
        out.append({'kind': 'remove', 'path': norm(D, 'deep/' + n), 'side': sd, 'group': group_of(sd),
                    'dist': site['dist'], 'expect': None})
    # renames within one side: the lists keep their lengths, one entry changes
    for n in site['names']:
        sd = side_of(n)
        if sd == 'none' or '/' in n:
            continue
        stem, dot, e = n.rpartition('.')
        new_name = 'zren_%s_%s.%s' % (tag, stem, e) if dot else 'zren_%s_%s' % (tag, n)
        if side_of(new_name) == sd:
            out.append({'kind': 'rename', 'from': norm(D, n), 'path': norm(D, new_name), 'side': sd, 'group': group_of(sd),
                        'dist': site['dist'], 'expect': True if site['dist'] else None})
    return out


def make_history(rng, sites, extra_sites=1):
    """The edit history of one regeneration project: for every forced site one edit that changes only the extra /
    not_now list, one that changes the found list and one drawn from all the others; for `extra_sites` further cached
    sites two edits drawn from all kinds.  No build.bfg is edited.  Order shuffled."""
    steps = []
    cached = [s for s in sites if s['cache'] and s['filter'] != 'lambda']
    forced = [s for s in cached if s.get('forced')]
    others = [s for s in cached if not s.get('forced')]
    rng.shuffle(others)
    for k, site in enumerate(forced + others[:extra_sites]):
        cands = site_candidates(site, 'h%d' % k)
        picked = []

        def pick(c):
            # additions and removals equally often, whatever the number of files there is to remove
            c = [x for x in c if x not in picked]
            kinds = sorted(set(x['kind'] for x in c))
            if kinds:
                kind = rng.choice(kinds)
                picked.append(rng.choice([x for x in c if x['kind'] == kind]))
        if site.get('forced'):
            for grp in ('extra-only', 'found'):
                pick([x for x in cands if x['group'] == grp])
            pick(cands)
        else:
            pick(cands)
            pick(cands)
        steps += picked
    rng.shuffle(steps)
    return steps


# ----------------------------------------------------------------------------- rendering to bfg text
def r_arg(a, d):
    t, v = a
    if t == 'name':
        return repr(v)
    if t == 'spath':
        return 'Path(%r, Root.srcdir)' % v
    if t == 'bpath':
        return 'Path(%r, Root.builddir)' % v
    if t == 'apath':
        return 'Path(%r, Root.absolute)' % v
    if t == 'absin':         # an absolute-path STRING naming a file below the source directory
        return "env.srcdir.string() + %r" % ('/' + v)
    if t == 'absout':        # an absolute-path STRING naming a file next to the source directory
        return "env.srcdir.parent().string() + %r" % ('/c18_outside/' + v)
    if t == 'obj':
        return 'N[%d]' % v
    if t == 'objs':
        return '*N[%d]' % v
    raise ValueError(a)


def r_list(args, d):
    return '[' + ', '.join(r_arg(a, d) for a in args) + ']'


def r_find_kwargs(spec, dist_kw=True):
    kw = []
    if spec['extra']:
        kw.append('extra=%r' % spec['extra'])
    if spec['exclude']:
        kw.append('exclude=%r' % spec['exclude'])
    if spec['filter'] == 'platform':
        kw.append('filter=filter_by_platform')
    elif spec['filter'] == 'lambda':
        kw.append("filter=lambda p: FindResult.not_now if 'e' in p.basename() else FindResult.include")
    if not spec['cache']:
        kw.append('cache=False')
    if dist_kw and not spec['dist']:
        kw.append('dist=False')
    return kw


def render_stmt(st, d):
    op = st['op']
    if op == 'sub':
        return 'submodule(%r)' % st['dir']
    if op == 'file':
        kw = '' if st['dist'] else ', dist=False'
        if st['kind'] == 'man_page':
            kw += ', compress=False'
        return 'N[%d] = %s(%s%s)' % (st['label'], st['kind'], r_arg(st['arg'], d), kw)
    if op == 'find':
        sp = st['spec']
        kw = r_find_kwargs(sp)
        if sp['type']:
            kw.append('type=%r' % sp['type'])
        if st['file_type'] and not st['paths']:
            kw.append('file_type=%s' % st['file_type'])
        pat = sp['dir'] + '/' + sp['pattern']
        if st['paths']:
            return 'N[%d] = [source_file(i) for i in find_paths(%s)]' % (st['label'], ', '.join([repr(pat)] + kw))
        return 'N[%d] = list(find_files(%s))' % (st['label'], ', '.join([repr(pat)] + kw))
    if op == 'dirinc':
        sp = st['spec']
        kw = ['include=%r' % sp['pattern']] + r_find_kwargs(sp)
        return 'N[%d] = %s(%s)' % (st['label'], 'header_directory' if st['hdr'] else 'directory',
                                   ', '.join([repr(sp['dir'])] + kw))
    if op == 'extra_dist':
        kw = []
        if st['files']:
            kw.append('files=' + (r_list(st['files'], d) if len(st['files']) > 1 else r_arg(st['files'][0], d)))
        if st['dirs']:
            kw.append('dirs=' + r_list(st['dirs'], d))
        return 'extra_dist(%s)' % ', '.join(kw)
    if op == 'object':
        kw = ['file=' + r_arg(st['file'], d)]
        if st['lang']:
            kw.append('lang=%r' % st['lang'])
        if st['includes']:
            kw.append('includes=' + r_list(st['includes'], d))
        if st['pch']:
            kw.append('pch=' + r_arg(st['pch'], d))
        if st['deps']:
            kw.append('extra_deps=' + r_list(st['deps'], d))
        nm = ['%r' % ('obj%d' % st['label'])] if st['name'] else []
        return 'N[%d] = object_file(%s)' % (st['label'], ', '.join(nm + kw))
    if op == 'objects':
        kw = [r_list(st['files'], d)]
        if st['includes']:
            kw.append('includes=' + r_list(st['includes'], d))
        return 'N[%d] = list(object_files(%s))' % (st['label'], ', '.join(kw))
    if op == 'pch':
        kw = ['file=' + r_arg(st['file'], d)]
        if st['source']:
            kw.append('source=' + r_arg(st['source'], d))
        if st['includes']:
            kw.append('includes=' + r_list(st['includes'], d))
        return 'N[%d] = precompiled_header(%s)' % (st['label'], ', '.join(kw))
    if op == 'link':
        kw = ['%r' % ('t%d' % st['label']), 'files=' + r_list(st['files'], d)]
        if st['includes']:
            kw.append('includes=' + r_list(st['includes'], d))
        if st['libs']:
            kw.append('libs=' + r_list(st['libs'], d))
        if st['pch']:
            kw.append('pch=' + r_arg(st['pch'], d))
        if st['deps']:
            kw.append('extra_deps=' + r_list(st['deps'], d))
        if st.get('cdeps'):
            kw.append('extra_compile_deps=' + r_list(st['cdeps'], d))
        return 'N[%d] = %s(%s)' % (st['label'], st['kind'], ', '.join(kw))
    if op == 'copy':
        kw = []
        if st['deps']:
            kw.append('extra_deps=' + r_list(st['deps'], d))
        if st['many']:
            return 'N[%d] = list(copy_files(%s))[0]' % (st['label'], ', '.join(['[%s]' % r_arg(st['arg'], d)] + kw))
        if st['rename']:
            return 'N[%d] = copy_file(%s)' % (st['label'], ', '.join(['%r' % ('copied%d' % st['label']),
                                                                     r_arg(st['arg'], d)] + kw))
        return 'N[%d] = copy_file(%s)' % (st['label'], ', '.join([r_arg(st['arg'], d)] + kw))
    if op == 'manz':
        return "N[%d] = man_page(%s%s, compress=True)" % (st['label'], r_arg(st['arg'], d),
                                                         '' if st['dist'] else ', dist=False')
    if op == 'command':
        cmd = ["'cat'"] + [r_arg(a, d) for a in st['nodes']]
        kw = []
        if st['files']:
            kw.append('files=' + r_list(st['files'], d))
        if st['deps']:
            kw.append('extra_deps=' + r_list(st['deps'], d))
        if st['step']:
            return 'N[%d] = build_step(%s)' % (st['label'], ', '.join(
                [repr(st['out']), 'cmd=[%s]' % ', '.join(cmd + ["'-o'", 'build_step.output'])] + kw))
        return 'N[%d] = command(%s)' % (st['label'], ', '.join(
            ['%r' % ('cmd%d' % st['label']), 'cmd=[%s]' % ', '.join(cmd)] + kw))
    if op == 'aliasdeps':
        return 'N[%d] = alias(%r, deps=%s)' % (st['label'], st['name'], r_list(st['deps'], d))
    if op == 'misc':
        if st['fn'] == 'alias':
            return 'alias(%r, [%s])' % (st['name'], r_arg(st['arg'], d))
        return '%s(%s)' % (st['fn'], r_arg(st['arg'], d))
    raise ValueError(op)


HEADER = "N = __bfg9000__.setdefault('N', {})\n"


def render_project(g):
    files = {}
    for p, c in g.tree.items():
        if not p.endswith('/'):
            files[p] = c
    for d, stmts in g.scripts.items():
        lines = []
        if d == '':
            lines.append('project(%s)' % ', '.join(["'proj'"] + (['version=%r' % g.version] if g.version else [])))
        lines.append(HEADER.rstrip('\n'))
        lines += [render_stmt(s, d) for s in stmts]
        files[norm(d, 'build.bfg')] = '\n'.join(lines) + '\n'
    for d, t in g.opt_scripts.items():
        files[norm(d, 'options.bfg')] = t
    dirs = [p for p in g.tree if p.endswith('/')]
    return files, dirs


class Replayed:
    """A project read back from a replay file: same interface as Gen for check_project."""

    def __init__(self, r):
        self.raw = (r['files'], r.get('dirs', []))
        files = r['files']
        self.scripts = {os.path.dirname(k): [] for k in files if os.path.basename(k) == 'build.bfg'}
        self.opt_scripts = {os.path.dirname(k): files[k] for k in files if os.path.basename(k) == 'options.bfg'}
        self.tree = dict(files)
        self.nodist, self.withdist = set(r.get('nodist', [])), set(r.get('withdist', []))
        self.nodist_dirs = set(r.get('nodist_dirs', []))
        self.listed, self.refs = set(), set()
        self.regen_find = r.get('regen_find')
        self.sites = r.get('sites')
        if self.sites is None:
            # replays written before the edit histories: one site, the directory of the forced find
            fd = self.regen_find
            self.sites = [] if not fd else [{
                'dir': fd, 'pattern': '*.c', 'extra': '*.hpp', 'exclude': None, 'filter': None, 'type': None,
                'cache': True, 'dist': True, 'deep': [], 'forced': 'extra',
                'names': sorted(k[len(fd) + 1:] for k in files if k.startswith(fd + '/') and '/' not in k[len(fd) + 1:])}]
        self.history = r.get('history')
        self.outside = r.get('outside', [])
        self.absin = r.get('absin', [])
        self.hseed = r.get('hseed', 0)
        m = re.search(r"project\('proj', version='([^']*)'\)", files.get('build.bfg', ''))
        self.version = m.group(1) if m else None


def render_any(g):
    return g.raw if hasattr(g, 'raw') else render_project(g)


def write_project(src, g):
    files, dirs = render_any(g)
    for dn in dirs:
        os.makedirs(os.path.join(src, dn), exist_ok=True)
    project.write_tree(src, files)
    return files


# ----------------------------------------------------------------------------- Makefile decoder (direct oracle)
def decode_srcdir_refs(text):
    """Every $(srcdir)-rooted path the Makefile text mentions, decoded from the two syntaxes bfg9000 writes: inside a
    single-quoted shell word ('$(srcdir)/a b.c', with '\\'' for a quote) and as a backslash-escaped rule-header word
    ($(srcdir)/a\\ b.c).  Returns a set of srcdir-relative paths ('' for the bare directory)."""
    out = set()
    key = '$(srcdir)'
    i = 0
    while True:
        i = text.find(key, i)
        if i < 0:
            break
        j = i + len(key)
        quoted = i > 0 and text[i - 1] == "'"
        buf = []
        n = len(text)
        if quoted:
            while j < n:
                c = text[j]
                if c == "'":
                    if text.startswith("'\\''", j):
                        buf.append("'")
                        j += 4
                        continue
                    break
                if c == '\n':
                    break
                if c == '$' and text.startswith('$$', j):
                    buf.append('$')
                    j += 2
                    continue
                if c == '$' and text.startswith('$,', j):
                    buf.append(',')
                    j += 2
                    continue
                buf.append(c)
                j += 1
        else:
            while j < n:
                c = text[j]
                if c in ' \t\n':
                    break
                if c == '\\' and j + 1 < n and text[j + 1] != '\n':
                    buf.append(text[j + 1])
                    j += 2
                    continue
                if c == '$' and text.startswith('$$', j):
                    buf.append('$')
                    j += 2
                    continue
                buf.append(c)
                j += 1
        p = ''.join(buf)
        if p == '' or p.startswith('/'):
            out.add(os.path.normpath(p.lstrip('/')) if p.strip('/') else '')
        i = j
    return out


HOOK = '''
import os, sys
_log = os.environ.get('C18_OPENLOG')
_src = os.environ.get('C18_SRCDIR')
if _log and _src:
    _src = os.path.realpath(_src) + os.sep
    def _hook(ev, args):
        if ev == 'open':
            try:
                p = args[0]
                if isinstance(p, bytes):
                    p = os.fsdecode(p)
                if isinstance(p, str):
                    q = os.path.realpath(p)
                    if q.startswith(_src) and (args[1] is None or 'r' in str(args[1])) and os.path.isfile(q):
                        with open(_log, 'a', encoding='utf-8', errors='surrogateescape') as f:
                            f.write(q[len(_src):] + '\\n')
            except Exception:
                pass
    sys.addaudithook(_hook)
'''


def hooked_env(root, src):
    hd = os.path.join(root, 'hook')
    os.makedirs(hd, exist_ok=True)
    with open(os.path.join(hd, 'sitecustomize.py'), 'w') as f:
        f.write(HOOK)
    log = os.path.join(root, 'open.log')
    if os.path.exists(log):
        os.remove(log)
    return {'PYTHONPATH': hd + ':' + common.REPO, 'C18_OPENLOG': log, 'C18_SRCDIR': src}, log


def read_openlog(log):
    if not os.path.exists(log):
        return set()
    return set(l for l in open(log, encoding='utf-8', errors='surrogateescape').read().split('\n') if l)


def dist_recipe(mk, fmt='gzip'):
    m = re.search(r'^dist-%s:.*\n\t(.*)$' % fmt, mk, re.M)
    return m.group(1) if m else None


def archive_members(build):
    tars = [n for n in os.listdir(build) if n.endswith('.tar.gz')]
    if len(tars) != 1:
        return None, None, tars
    tf = tarfile.open(os.path.join(build, tars[0]))
    prefix = tars[0][:-len('.tar.gz')]
    names = tf.getnames()
    return prefix, names, tars


def strip_prefix(prefix, names):
    out, bad = set(), []
    for n in names:
        if n == prefix:
            out.add('')
        elif n.startswith(prefix + '/'):
            out.add(os.path.normpath(n[len(prefix) + 1:]))
        else:
            bad.append(n)
    return out, bad


def norm_makefile(text, src, build):
    return text.replace(build, '<BUILD>').replace(src, '<SRC>')


def classify(kind, path, g):
    """Finding classes of a failing observation (predicates on the input)."""
    cl = []
    if kind == 'missing-after-regen':
        cl.append('find-cache-hit-extra')
    return tuple(cl)


def set_times(src, build, newest):
    """Explicit mtimes: sources oldest, build outputs newer, the edited entries newest (all in the past, so that one
    regeneration settles it)."""
    now = os.stat(os.path.join(build, 'Makefile')).st_mtime
    for top, t in ((src, now - 300), (build, now - 200)):
        for dp, dns, fns in os.walk(top):
            for n in dns + fns:
                os.utime(os.path.join(dp, n), (t, t), follow_symlinks=False)
    for p in newest:
        if os.path.lexists(p):
            os.utime(p, (now - 100, now - 100))


def apply_step(src, st):
    """Performs one edit; returns the paths whose mtime must be newest (the entry and every directory it changed)."""
    p = os.path.join(src, st['path'])
    par = os.path.dirname(p)
    newest = [par]
    if st['kind'] == 'add':
        if not os.path.isdir(par):
            os.makedirs(par)
            newest.append(os.path.dirname(par))
        with open(p, 'w') as f:
            f.write('/* added: %s */\n' % st['path'].replace('*/', ''))
        newest.append(p)
    elif st['kind'] == 'rename':
        os.rename(os.path.join(src, st['from']), p)
        newest.append(p)
    else:
        os.remove(p)
    return newest


def fresh_members(src, fb):
    """Member set of the archive a fresh configure of src packs (None, message on failure)."""
    try:
        rc, out = project.configure(src, fb)
        if rc != 0:
            return None, 'configure: ' + out[-800:]
        rc, _, out = project.make(fb, ['dist'])
        if rc != 0:
            return None, 'make dist: ' + out[-800:]
        prefix, names, tars = archive_members(fb)
        if names is None:
            return None, 'archives: %r' % (tars,)
        return strip_prefix(prefix, names)[0], ''
    finally:
        shutil.rmtree(fb, ignore_errors=True)


def run_history(s, src, g, members, tarname, mk, fail, info):
    from concurrent.futures import ThreadPoolExecutor
    site_dirs = [x['dir'] for x in g.sites]
    must = set(p for p in members if any(p.startswith(d + '/') for d in site_dirs))   # members the edits do not touch
    done = []
    mk_prev = mk
    with ThreadPoolExecutor(1) as pool:
        for k, st in enumerate(g.history):
            label = '%s %s (%s side) ' % (st['kind'], st['path'], st['side'])
            hist = 'after the edits %s' % json.dumps([[x['kind']] + ([x['from']] if x['kind'] == 'rename' else []) +
                                                      [x['path']] for x in done + [st]])
            gone = {'remove': st['path'], 'rename': st.get('from')}.get(st['kind'])
            added = st['kind'] in ('add', 'rename')
            if gone and not os.path.isfile(os.path.join(src, gone)):
                continue        # an earlier edit of the history removed it
            newest = apply_step(src, st)
            done.append(st)
            must.discard(st['path'])
            must.discard(gone)
            set_times(src, s.build, newest)
            for n in os.listdir(s.build):
                if n.endswith('.tar.gz'):
                    os.remove(os.path.join(s.build, n))
            fut = pool.submit(fresh_members, src, os.path.join(s.root, 'fbuild%d' % k))
            rc, _, out = project.make(s.build, ['dist'])
            want, msg = fut.result()
            info.setdefault('steps', []).append('%s:%s' % (st['kind'], st['side']))
            if want is None:
                fail('a fresh configure + make dist of the edited tree failed (%s)' % label, msg + ' ' + hist)
                return
            if rc != 0:
                fail('make dist failed %s (%s; a fresh configure of the same tree packs it)' % (hist, label), out[-1500:])
                return
            mk3 = project.read(s.build, 'Makefile')
            info.setdefault('step_regenerated', []).append('%s=%s' % (st['group'], mk3 != mk_prev))
            if st['group'] == 'found' and st.get('dist') and mk3 == mk_prev:
                fail('oracle self-check: changing the found list of a find_files call did not regenerate the Makefile',
                     label + out[-600:], ('harness',))
            mk_prev = mk3
            prefix3, names3, _ = archive_members(s.build)
            m3, _ = strip_prefix(prefix3, names3 or [])
            if added and st['expect'] and st['path'] not in m3:
                fail('file added to a searched directory (%s side of a dist=True find call) is not in the archive of '
                     '`make dist`' % st['side'], '%s %s' % (st['path'], hist))
            if gone and gone in m3:
                fail('removed file is still in the archive of `make dist`', '%s %s' % (gone, hist))
            for p in sorted(must - m3):
                fail('member dropped from the archive by `make dist` after an edit of a searched directory',
                     '%s %s' % (p, hist), classify('missing-after-regen', p, g))
            must &= m3      # reported once
            if added and st['expect'] and st['path'] in m3:
                must.add(st['path'])
            if m3 != want:
                fail('`make dist` %s packs other members than a fresh configure of the same tree' % hist,
                     'only after regeneration: %r ; only fresh: %r' % (sorted(m3 - want)[:6], sorted(want - m3)[:6]))


def check_project(rep, g, tag, regen=False):
    """Runs one generated project through the real tools. Returns list of (what, detail, classes)."""
    fails = []

    def fail(what, detail, classes=()):
        fails.append((what, detail, classes))

    with project.Scratch('c18') as s:
        src = s.src
        write_project(src, g)
        for name in getattr(g, 'outside', []):        # files NEXT TO the source directory that the scripts name
            project.write_tree(os.path.join(s.root, 'c18_outside'), {name: 'outside the source tree\n'})
        snap = project.snapshot(src)
        henv, log = hooked_env(s.root, src)
        rc, out = project.configure(src, s.build, extra_env=henv)
        if rc != 0:
            fail('configure failed on a generated project (harness or implementation error)', out[-1500:], ('harness',))
            return fails, {}
        opened = read_openlog(log)
        mk = project.read(s.build, 'Makefile')
        rc, _, out = project.make(s.build, ['dist'])
        if rc != 0:
            fail('make dist failed', out[-1500:])
            return fails, {}
        prefix, names, tars = archive_members(s.build)
        if names is None:
            fail('make dist did not produce exactly one .tar.gz', repr(tars))
            return fails, {}
        want_prefix = 'proj' + ('-' + g.version if g.version else '')
        if prefix != want_prefix:
            fail('archive name/prefix is not <project>-<version>', '%r vs %r' % (prefix, want_prefix))
        members, bad = strip_prefix(prefix, names)
        if bad:
            fail('archive member outside the destination prefix', repr(bad[:5]))
        info = self_info = {'members': len(members)}
        # (1) required: every $(srcdir) path in the Makefile, every script opened, everything listed
        refs = decode_srcdir_refs(mk)
        refs.discard('')
        missing_dec = sorted(p for p in g.refs if p not in refs)
        if missing_dec:
            fail('oracle self-check: a path the generator knows to be consumed by an edge was not decoded from the Makefile',
                 repr(missing_dec[:5]), ('harness',))
        scripts = set(norm(d, 'build.bfg') for d in g.scripts) | set(norm(d, 'options.bfg') for d in g.opt_scripts)
        if not scripts <= opened:
            fail('oracle self-check: audit hook did not see every generated script being opened',
                 repr(sorted(scripts - opened)[:5]), ('harness',))
        opened_scripts = set(p for p in opened if p.endswith('.bfg'))
        info.update(refs=len(refs), opened=len(opened), scripts=len(opened_scripts))
        def present(p):
            if p in members or p in g.nodist or any(p.startswith(x + '/') for x in g.nodist_dirs):
                return True
            # a directory is present when the unpacked archive has it: some member (or dist=False file) lies below it
            if os.path.isdir(os.path.join(src, p)):
                return any(m.startswith(p + '/') for m in members | g.nodist)
            return False
        for p in sorted(refs | opened | scripts):
            if not present(p):
                fail('file read from srcdir is not in the archive', p,
                     ('opened-non-script',) if (p in opened and p not in refs and p not in scripts) else ())
        # (1b) a file below the source directory that an edge names by an absolute-path STRING: the build file mentions it
        # by that absolute path (no $(srcdir)), so the decoder above does not see it - it is a file below srcdir that the
        # build file references all the same
        for p in sorted(set(getattr(g, 'absin', []))):
            q = p.rstrip('/')
            if (os.path.join(src, q) + ' ') in mk.replace('\n', ' \n') and not present(q):
                fail('file below the source directory that the build file references by its absolute path is not in the archive',
                     q, ('abs-string-dependency-below-srcdir',))
        # (2) dist=False only -> absent
        for p in sorted(g.nodist - g.withdist):
            if p in members:
                fail('file marked dist=False (and never created with dist) is in the archive', p)
        # generator's own expectation: everything created with dist is a member
        for p in sorted(g.withdist | g.listed):
            if p not in members:
                fail('file created with dist (or listed by extra_dist) is not in the archive', p)
        # (3) nothing from the build dir: every member is an entry of the source tree, relative, no ..
        for p in sorted(members):
            if p == '':
                continue
            if p.startswith('/') or p.split('/')[0] == '..' or not os.path.lexists(os.path.join(src, p)):
                fail('archive member is not an entry of the source directory', p)
        # content equality for regular files
        tf = tarfile.open(os.path.join(s.build, tars[0]))
        for ti in tf.getmembers():
            if ti.isfile():
                rel = ti.name[len(prefix) + 1:]
                sp = os.path.join(src, rel)
                if os.path.isfile(sp) and tf.extractfile(ti).read() != open(sp, 'rb').read():
                    fail('archive member content differs from the source file', rel)
        # (4) relative + -C srcdir
        rec = dist_recipe(mk)
        if rec is None or " -C '$(srcdir)' " not in rec:
            fail('dist recipe does not pass -C srcdir', repr(rec)[:300])
        else:
            from . import shtools
            words = shtools.dash_words(rec.replace('$(srcdir)', src).replace('$(DOPPEL)', 'doppel').replace('$$', '$'))
            if words:
                k = words.index('-P') + 2 if '-P' in words else words.index('-C') + 2
                for w in words[k:-1]:
                    if w.startswith('/') or w.split('/')[0] == '..':
                        fail('dist recipe names a source that is not relative to srcdir', w)
                ws = set(os.path.normpath(w) for w in words[k:-1]) - {'.'}
                if ws != members - {'', '.'}:
                    fail('oracle self-check: recipe sources and archive members differ',
                         repr(sorted(ws ^ (members - {'', '.'}))[:6]), ('harness',))
        # (5) the three formats pack the same members (dist = dist-gzip; dist-bzip2 and dist-zip are targets of their own)
        rc, _, out = project.make(s.build, ['dist-gzip', 'dist-bzip2', 'dist-zip'])
        if rc != 0:
            fail('make dist-gzip dist-bzip2 dist-zip failed', out[-1500:])
        else:
            import zipfile
            for ext, lister in (('.tar.bz2', lambda f: tarfile.open(f).getnames()),
                                ('.zip', lambda f: [n.rstrip('/') for n in zipfile.ZipFile(f).namelist()])):
                arcs = [n for n in os.listdir(s.build) if n.endswith(ext)]
                if len(arcs) != 1:
                    fail('make dist-* did not produce exactly one %s archive' % ext, repr(arcs))
                    continue
                try:
                    other, bad2 = strip_prefix(arcs[0][:-len(ext)], lister(os.path.join(s.build, arcs[0])))
                except Exception as e:
                    fail('the %s archive cannot be read' % ext, repr(e))
                    continue
                files_gz = set(m for m in members if m and not os.path.isdir(os.path.join(src, m)))
                files_other = set(m for m in other if m and not os.path.isdir(os.path.join(src, m)))
                if bad2 or files_gz != files_other:
                    fail('the %s archive does not contain the same files as the .tar.gz archive' % ext,
                         'only in .tar.gz: %r ; only in %s: %r ; outside the prefix: %r' % (
                             sorted(files_gz - files_other)[:8], ext, sorted(files_other - files_gz)[:8], bad2[:3]))
        if project.snapshot(src) != snap:
            fail('configure / make dist modified the source directory', '')
        # (5) unpacked archive configures to the same Makefile modulo paths
        fresh = os.path.join(s.root, 'unpacked')
        os.mkdir(fresh)
        tf.extractall(fresh)
        usrc = os.path.join(fresh, prefix)
        for p in sorted(g.nodist | g.nodist_dirs):
            sp = os.path.join(src, p)
            if p not in members and os.path.lexists(sp):
                os.makedirs(os.path.dirname(os.path.join(usrc, p)), exist_ok=True)
                if os.path.isdir(sp):
                    shutil.copytree(sp, os.path.join(usrc, p), dirs_exist_ok=True)
                else:
                    shutil.copy2(sp, os.path.join(usrc, p))
        ubuild = os.path.join(s.root, 'ubuild')
        rc, out = project.configure(usrc, ubuild)
        if rc != 0:
            fail('the unpacked archive does not configure', out[-1200:])
        else:
            mk2 = project.read(ubuild, 'Makefile')
            # (the scripts name the files next to the source directory relative to wherever that directory is)
            a = norm_makefile(mk.replace(os.path.dirname(src) + '/c18_outside/', '<OUTSIDE>/'), src, s.build)
            b = norm_makefile(mk2.replace(os.path.dirname(usrc) + '/c18_outside/', '<OUTSIDE>/'), usrc, ubuild)
            # a searched directory none of whose entries is distributed is no member of the archive (an archive holds files):
            # in the unpacked tree that search walks nothing, so the list of watched directories - the bookkeeping of the
            # regeneration step, C08's subject - may be empty there and its include line absent. Nothing the build reads is lost.
            gone = [x['dir'] for x in g.sites if x.get('cache') and not os.path.isdir(os.path.join(usrc, x['dir']))]
            if gone and a != b:
                rep.count('system:searched directory without distributed content is absent from the archive')
                drop = ('include .bfg_find_deps', '-include .bfg_find_deps')
                a = '\n'.join(l for l in a.split('\n') if l.strip() not in drop and l.strip())
                b = '\n'.join(l for l in b.split('\n') if l.strip() not in drop and l.strip())
            if a != b:
                la, lb = a.split('\n'), b.split('\n')
                diff = [(x, y) for x, y in zip(la, lb) if x != y][:3]
                fail('the unpacked archive configures to a different Makefile', repr(diff)[:1200])
        shutil.rmtree(fresh, ignore_errors=True)
        shutil.rmtree(ubuild, ignore_errors=True)
        # (6) edit histories of the searched directories (no build.bfg edit): after every edit `make dist` (which lets
        # the Makefile regenerate itself through `bfg9000 regenerate --lazy` when a searched directory is newer) must
        # pack what a fresh configure of the edited tree packs
        if regen and g.sites:
            if g.history is None:
                g.history = make_history(random.Random(g.hseed), g.sites)
            run_history(s, src, g, members, tars[0], mk, fail, info)
    return fails, info


def report_system(rep, g, what, detail, classes, regen):
    files, dirs = render_any(g)
    rep.fail('system: %s: %s' % (what, detail), {'stage': 'system', 'files': files, 'dirs': dirs,
                                                 'detail': detail, 'regen': regen, 'regen_find': g.regen_find,
                                                 'sites': g.sites, 'history': g.history, 'hseed': g.hseed,
                                                 'nodist': sorted(g.nodist), 'withdist': sorted(g.withdist),
                                                 'nodist_dirs': sorted(g.nodist_dirs), 'outside': sorted(g.outside), 'absin': sorted(g.absin)},
             classes=classes, found_input='harness' not in classes)


def project_canon(g):
    files, _ = render_project(g)
    return json.dumps(sorted((k, v) for k, v in files.items() if k.endswith('.bfg')))


def stage_corpus(rep):
    d = os.path.join(common.VERIF, 'corpus', 'C18')
    for fn in sorted(os.listdir(d)) if os.path.isdir(d) else []:
        if fn.endswith('.json'):
            r = json.load(open(os.path.join(d, fn)))
            g = Replayed(r)
            fails, info = check_project(rep, g, fn, regen=bool(r.get('regen')))
            rep.case('corpus:' + fn, True)
            rep.count('corpus:projects')
            rep.traces += 1
            for what, detail, classes in fails:
                report_system(rep, g, 'corpus %s: %s' % (fn, what), detail, classes, bool(r.get('regen')))


def stage_system(rep, rng, n, regen_n):
    for i in range(n):
        regen = i < regen_n
        g = Gen(random.Random(rng.getrandbits(48)), size=1.0, regen=regen, sysonly=True).generate()
        fails, info = check_project(rep, g, 'sys%d' % i, regen=regen)
        rep.case(project_canon(g), len(g.withdist) >= 3)
        rep.count('system:projects')
        rep.count('system:regen-projects', 1 if regen else 0)
        for st in (s for ss in g.scripts.values() for s in ss):
            rep.count('system:stmt:' + st['op'] + (':' + st['kind'] if st['op'] == 'file' else ''))
            for a in (st.get('deps') or []) + (st.get('cdeps') or []):
                rep.count('system:dep-spelling:' + a[0] + (':extra_compile_deps' if a in (st.get('cdeps') or []) else ''))
        rep.traces += 1
        if i < 3:
            rep.sample('system project %d: %d scripts, %d files, members=%s refs=%s opened=%s nodist=%d' % (
                i, len(g.scripts) + len(g.opt_scripts), len(g.tree), info.get('members'), info.get('refs'),
                info.get('opened'), len(g.nodist)))
        for k in ('steps', 'step_regenerated'):
            for v in info.get(k, []):
                rep.count('system:history:%s:%s' % (k, v))
        for what, detail, classes in fails:
            report_system(rep, g, what, detail, classes, regen)
    rep.stage('system', projects=n, regen_projects=regen_n)


# ----------------------------------------------------------------------------- translation to the model
KIND_NUM = {k: i for i, k in enumerate(KIND_IDS)}
ROOTS = {'src': 0, 'build': 1, 'abs': 2}


def m_node(root, path):
    return [ROOTS[root], path]


class ToModel:
    """Flattens the scripts of a generated project in execution order into model calls."""

    def __init__(self, g, walks, hit):
        self.g, self.walks, self.hit = g, list(walks), hit
        self.idx = {}       # label -> first log index
        self.count = {}     # label -> number of file objects the statement returned
        self.nlog = 0
        self.paths = {}     # label -> (root, path) of a file statement given by name
        self.calls = []
        self.nfind = 0
        self.run('')

    def arg(self, a, d, dep=False):
        t, v = a
        if t == 'objs':
            raise ValueError('splat argument outside a list')
        if t == 'name':
            return [0, m_node('src', norm('' if dep else d, v))]
        if t == 'spath':
            return [0, m_node('src', v.rstrip('/'))]
        if t == 'bpath':
            return [0, m_node('build', v.rstrip('/'))]
        if t == 'apath':
            return [0, m_node('abs', v)]
        if t in ('absin', 'absout'):
            return [0, m_node('abs', '<%s>/%s' % (t, v.rstrip('/')))]
        if t == 'at':
            return [1, v]
        return [1, self.idx[v]]

    def splat(self, l):
        """*N[k] stands for one argument per file object the find returned."""
        out = []
        for a in l:
            if a[0] == 'objs':
                out += [('at', self.idx[a[1]] + j) for j in range(self.count[a[1]])]
            else:
                out.append(a)
        return out

    def args(self, l, d, dep=False):
        return [self.arg(a, d, dep) for a in self.splat(l)]

    def incs(self, l, d):
        out = []
        for a in l:
            if a[0] == 'obj' and self.g.tag_of(a[1]) == 'header':
                r, p = self.paths[a[1]]
                out.append([0, m_node(r, os.path.dirname(p))])
            out.append(self.arg(a, d))
        return out

    def files_flag(self, l, d):
        out = []
        for a in self.splat(l):
            isobj = a[0] == 'obj' and self.g.tag_of(a[1]) == 'object'
            out.append([self.arg(a, d), isobj])
        return out

    def find(self, spec):
        ev = self.walks[self.nfind] if self.nfind < len(self.walks) else []
        self.nfind += 1
        # a lambda filter is a new function object in every run: its FileFilter never equals the cached one
        hit = bool(self.hit and spec['cache'] and spec.get('filter') != 'lambda')
        return [[[m_node(r, p), inc] for (r, p, inc) in ev], bool(spec['cache']), hit]

    def opt(self, a, d):
        return [] if a is None else [self.arg(a, d)]

    def push(self, st, n=1):
        self.idx[st['label']] = self.nlog
        self.count[st['label']] = n
        self.nlog += n

    def run(self, d):
        for st in self.g.scripts[d]:
            op = st['op']
            c = None
            npush = 1
            if op == 'sub':
                sd = norm(d, st['dir'])
                self.calls.append([12, m_node('src', norm(sd, 'build.bfg'))])
                self.run(sd)
                continue
            if op == 'file':
                a = self.arg(st['arg'], d)
                if a[0] == 0:
                    self.paths[st['label']] = ({0: 'src', 1: 'build', 2: 'abs'}[a[1][0]], a[1][1])
                else:
                    src = st['arg'][1]
                    if src in self.paths:
                        self.paths[st['label']] = self.paths[src]
                c = [0, KIND_NUM[st['kind']], a, st['dist']]
            elif op == 'dirinc':
                sp = st['spec']
                c = [1, st['hdr'], m_node('src', norm(d, sp['dir'])), [self.find(sp)], sp['dist']]
            elif op == 'find':
                f = self.find(st['spec'])
                npush = sum(1 for e in f[0] if e[1])
                c = [3 if st['paths'] else 2, f, st['spec']['dist']]
            elif op == 'extra_dist':
                c = [4, self.args(st['files'], d),
                     [[m_node('src', norm(d, a[1])), self.find({'cache': True})] for a in st['dirs']]]
            elif op == 'object':
                c = [5, self.arg(st['file'], d), bool(st['lang']), self.incs(st['includes'], d), self.opt(st['pch'], d),
                     self.args(st['deps'], d, dep=True), 'o']
            elif op == 'objects':
                c = [6, self.files_flag(st['files'], d), self.incs(st['includes'], d), [], ['o'] * len(st['files'])]
                npush = len(st['files'])
            elif op == 'pch':
                c = [7, self.arg(st['file'], d), self.opt(st['source'], d), self.incs(st['includes'], d), 'o']
            elif op == 'link':
                c = [8, self.files_flag(st['files'], d), self.incs(st['includes'], d), self.args(st['libs'], d),
                     self.opt(st['pch'], d), self.args(st['deps'], d, dep=True), 'o']
            elif op == 'copy':
                c = [9, self.arg(st['arg'], d), self.args(st['deps'], d, dep=True), 'o']
            elif op == 'manz':
                c = [10, self.arg(st['arg'], d), st['dist'], 'o']
            elif op == 'command':
                c = [11, self.args(st['files'], d), [self.idx[a[1]] for a in st['nodes']],
                     self.args(st['deps'], d, dep=True), 'o']
            elif op == 'aliasdeps':
                # Alias is an Edge with extra_deps only: a command without files and nodes
                c = [11, [], [], self.args(st['deps'], d, dep=True), 'o']
            elif op == 'misc':
                if st['fn'] in ('install', 'alias'):
                    c = [13, self.idx[st['arg'][1]]]
            if c is not None:
                self.calls.append(c)
            if 'label' in st:
                self.push(st, npush)


# ----------------------------------------------------------------------------- in-process execution of the real code
class InProc:
    """Runs bfg9000.build.configure_build (split so that the find cache can be pre-filled) in this process."""

    def __init__(self):
        from bfg9000 import build as bmod
        from bfg9000.builtins import builtin, find as findmod
        from bfg9000.build_inputs import BuildInputs, Regenerating
        from bfg9000.environment import Environment
        from bfg9000.path import Path, Root, InstallRoot, abspath
        self.__dict__.update(locals())
        if '/venv/bin' not in os.environ.get('PATH', '').split(':'):
            os.environ['PATH'] = '/venv/bin:' + os.environ.get('PATH', '')
        bmod.builtin_init()

    def env(self, src, build):
        P = self.Path
        e = self.Environment(P('/venv/bin', self.Root.absolute), 'make', None, self.abspath(src), self.abspath(build))
        e.finalize({i: P('/usr/local/' + i.name, self.Root.absolute) if i.name != 'prefix' else P('/usr/local', self.Root.absolute)
                    for i in self.InstallRoot}, (True, False), False, [])
        return e

    def configure(self, src, build, prefill=None):
        """Returns (BuildInputs, seen_paths + opts_paths, recorded walk events per _find_files call)."""
        from itertools import chain
        from unittest import mock
        bmod, builtin = self.bmod, self.builtin
        os.makedirs(build, exist_ok=True)
        env = self.env(src, build)
        walks = []
        real = self.findmod._find_files
        FR = self.findmod.FindResult

        def rec(env_, filt, seen_dirs=None):
            ev = []
            walks.append(ev)
            for path, matched in real(env_, filt, seen_dirs):
                if matched in (FR.include, FR.not_now):
                    ev.append((self.rootname(path), path.suffix, matched == FR.include))
                yield path, matched

        cwd = os.getcwd()
        try:
            with mock.patch.object(self.findmod, '_find_files', rec):
                parser, opts_paths = bmod._execute_options(env)
                argv = parser.parse_args(env.extra_args)
                bfgpath = self.Path('build.bfg', self.Root.srcdir)
                b = self.BuildInputs(env, bfgpath)
                ctx = builtin.BuildContext(env, b, argv, self.Regenerating.false)
                if prefill is not None:
                    # what find_check_cache does in a lazy regeneration: the saved filters are re-created from their
                    # JSON form in the new context and the cache is filled with the current walk results
                    from bfg9000.exceptions import SerializationError
                    for ff, ent in prefill.items():
                        try:
                            ff2 = self.findmod.FileFilter.from_json(ff.to_json(), ctx)
                        except SerializationError:
                            continue
                        b['find_cache'].add(ff2, [self.Path.from_json(i.to_json()) for i in ent.found],
                                            [self.Path.from_json(i.to_json()) for i in ent.extra])
                bmod.execute_file(ctx, bfgpath)
                scripts = list(ctx.seen_paths) + list(opts_paths)
                for i in chain(ctx.seen_paths[1:], opts_paths):
                    b.add_bootstrap(i)
        finally:
            os.chdir(cwd)
        return b, env, scripts, walks

    def rootname(self, path):
        r = path.root
        return 'src' if r == self.Root.srcdir else ('build' if r == self.Root.builddir else 'abs')

    def canon_path(self, p):
        return [ROOTS[self.rootname(p)], p.suffix]

    def observe(self, b, env, scripts, version):
        from bfg9000.builtins import dist
        from bfg9000.file_types import Node
        from bfg9000.iterutils import iterate
        members = [self.canon_path(i.path) for i in b.sources()]
        cmd = dist._dist_command('gzip', b, None, env)
        words = []
        from bfg9000.tools.common import Command
        for w in cmd:
            if isinstance(w, Command):
                words.append([0, 'doppel'])
            elif isinstance(w, str):
                words.append([0, w])
            elif self.rootname(w) == 'src' and w.suffix == '':
                words.append([1])
            elif self.rootname(w) == 'build':
                words.append([2, w.suffix])
            else:
                words.append(['?', repr(w)])
        refs = set()
        for e in b.edges():
            for attr in ('file', 'files', 'user_files', 'includes', 'include_deps', 'pch', 'pch_source', 'libs',
                         'user_libs', 'extra_deps', 'module_defs'):
                v = getattr(e, attr, None)
                for x in iterate(v):
                    if isinstance(x, Node) and hasattr(x, 'path') and self.rootname(x.path) == 'src':
                        refs.add(x.path.suffix)
            for line in getattr(e, 'cmds', None) or []:
                for x in iterate(line):
                    for y in iterate(getattr(x, 'bits', None) or [x]):
                        if isinstance(y, Node) and hasattr(y, 'path') and self.rootname(y.path) == 'src':
                            refs.add(y.path.suffix)
        for x in b['install'].explicit:
            if hasattr(x, 'path') and self.rootname(x.path) == 'src':
                refs.add(x.path.suffix)
        return {'members': members, 'words': words, 'refs': sorted(refs),
                'scripts': [self.canon_path(p) for p in scripts]}


def d_node(x):
    return [x[0], d_str(x[1])]


def decode_run(raw):
    if not raw:
        return None
    r = raw[0]
    words = None
    if r[5]:
        words = [[w[0]] + ([d_str(w[1])] if len(w) > 1 else []) for w in r[5][0]]
    return {'members': [d_node(x) for x in r[0]], 'nodist': [d_node(x) for x in r[1]],
            'refs': sorted(set(d_str(x[1]) for x in r[2])), 'listed': [d_node(x) for x in r[3]],
            'scripts': [d_node(x) for x in r[4]], 'words': words}


def impl_fixed(ip):
    """Does the implementation re-create cached extra entries (commit 491a34f)?  Probed on a two-file project."""
    with project.Scratch('c18p') as s:
        project.write_tree(s.src, {'build.bfg': "find_files('d/*.c', extra='*.h')\n", 'd/a.c': '', 'd/a.h': ''})
        b1, _, _, _ = ip.configure(s.src, s.build)
        b2, _, _, _ = ip.configure(s.src, s.build, prefill=dict(b1['find_cache'].items()))
        return any(i.path.suffix == 'd/a.h' for i in b2.sources())


def stage_w(rep, rng, n, fixed, ip):
    """W-correspondence on n generated projects, each run fresh and with a pre-filled find cache."""
    calls, impls, metas = [], [], []
    direct_fail = [0]
    with project.Scratch('c18w') as s:
        for i in range(n):
            g = Gen(random.Random(rng.getrandbits(48)), size=rng.choice([0.3, 0.6, 1.0]),
                    special_rate=rng.choice([0.0, 0.25, 0.5])).generate()
            src = os.path.join(s.root, 'p%d' % i)
            bld = os.path.join(s.root, 'b%d' % i)
            os.mkdir(src)
            files = write_project(src, g)
            try:
                b1, env1, scr1, walks = ip.configure(src, bld)
                o1 = ip.observe(b1, env1, scr1, g.version)
                b2, env2, scr2, walks2 = ip.configure(src, bld, prefill=dict(b1['find_cache'].items()))
                o2 = ip.observe(b2, env2, scr2, g.version)
            except Exception as e:   # a generated script the implementation rejects is a harness problem
                rep.count('W:rejected-script')
                rep.fail('W: generated script rejected by the implementation: %r' % (e,),
                         {'obligation': 'W:dist_run', 'files': files, 'error': repr(e)}, found_input=False)
                continue
            finally:
                shutil.rmtree(src, ignore_errors=True)
                shutil.rmtree(bld, ignore_errors=True)
            opts = []
            if '' in g.opt_scripts:
                opts = [m_node('src', 'options.bfg')] + [m_node('src', norm(d, 'options.bfg'))
                                                          for d in g.opt_scripts if d != '']
            # direct oracle (independent of the model): every entry a dist=True find call listed as include / not_now
            # must be a member of the distribution, in the fresh run and in the cache-served run
            class _Rec(ToModel):
                def __init__(self, *a):
                    self.rec = []
                    super().__init__(*a)

                def find(self, spec):
                    ev = self.walks[self.nfind] if self.nfind < len(self.walks) else []
                    self.rec.append((spec, ev))
                    return super().find(spec)
            for tag, obs in (('fresh', o1), ('cache-served', o2)):
                mem = set(tuple(m) for m in obs['members'])
                for spec, ev in _Rec(g, walks, False).rec:
                    if not spec.get('dist', True):
                        continue
                    for (r, pth, inc) in ev:
                        if r == 'src' and (ROOTS['src'], pth) not in mem and (ROOTS['src'], pth.rstrip('/')) not in mem:
                            rep.fail('find entry %r (%s) of a dist=True find call %r is not in the distribution (%s run)' % (
                                pth, 'found' if inc else 'extra', {k: spec.get(k) for k in ('cache', 'extra', 'filter', 'type')}, tag),
                                {'kind': 'find-entry-not-in-dist', 'files': files, 'entry': pth, 'spec': spec, 'run': tag},
                                classes=('find-cache-hit-extra',) if (tag == 'cache-served' and not inc) else ())
                            direct_fail[0] += 1
            # direct oracle (independent of the model) on what the real configure_build registered: every srcdir node an
            # edge consumes (sources, includes, libraries, extra dependencies in whatever spelling the script used) is a
            # source of the distribution unless the script marked it dist=False, and every source lies in srcdir
            for tag, obs in (('fresh', o1), ('cache-served', o2)):
                mem = set(tuple(m) for m in obs['members'])
                for m in obs['members']:
                    if m[0] != ROOTS['src']:
                        rep.fail('a file outside the source directory is registered as a source of the distribution (%s run): %r'
                                 % (tag, m), {'kind': 'non-srcdir-source', 'files': files, 'entry': m, 'run': tag,
                                              'outside': sorted(g.outside)}, classes=())
                        direct_fail[0] += 1
                for pth in obs['refs']:
                    if (ROOTS['src'], pth) in mem or pth in g.nodist or any(pth.startswith(x + '/') for x in g.nodist_dirs):
                        continue
                    rep.fail('srcdir file %r is consumed by an edge of the build but is no source of the distribution (%s run)'
                             % (pth, tag), {'kind': 'edge-input-not-in-dist', 'files': files, 'entry': pth, 'run': tag},
                             classes=('find-cache-hit-extra',) if (tag == 'cache-served' and not fixed) else ())
                    direct_fail[0] += 1
            for st in (x for ss in g.scripts.values() for x in ss):
                for a in (st.get('deps') or []) + (st.get('cdeps') or []):
                    rep.count('W:dep-spelling:' + a[0])
            for hit, obs, wk in ((False, o1, walks), (True, o2, walks)):
                tm = ToModel(g, wk, hit)
                calls.append(('dist_run', [fixed, m_node('src', 'build.bfg'), tm.calls, opts, 'gzip', '.tar.gz',
                                           'proj', [] if g.version is None else [g.version]]))
                impls.append(obs)
                metas.append((files, hit, tm.nfind, len(wk)))
            canon = project_canon(g)
            rep.case(canon, len(o1['members']) >= 5)
            rep.count('W:projects')
            rep.count('W:members', len(o1['members']))
            rep.count('W:find-calls', len(walks))
            rep.count('W:cache-hit-find-calls', len(walks) - len(walks2))
            for st in (x for ss in g.scripts.values() for x in ss):
                rep.count('W:stmt:' + st['op'] + (':' + st['kind'] if st['op'] == 'file' else ''))
            if i < 2:
                rep.sample('W project %d: members %s' % (i, ' '.join(m[1] for m in o1['members'][:12])))

    def decode(name, raw):
        r = decode_run(raw)
        if r is None:
            return None
        return {k: r[k] for k in ('members', 'words', 'refs', 'scripts')}
    dis = common.compare_model(rep, 'W:dist_run', calls, impls, decode, vm_limit=12)
    for i, call, iv, mv in dis[:5]:
        files, hit, nf, nw = metas[i]
        diff = {k: (iv[k], (mv or {}).get(k)) for k in iv if not mv or iv[k] != mv.get(k)}
        rep.fail('W: model and implementation disagree on a generated script (cache hits: %s): %s' % (
            hit, json.dumps(diff, default=str)[:1500]),
            {'obligation': 'W:dist_run', 'files': files, 'hit': hit, 'diff': diff}, found_input=False)
    return len(dis)


def run(rep):
    rng = random.Random(rep.seed)
    rep.proof_stage(coqchk=(rep.tier == 'thorough'))
    thorough = rep.tier == 'thorough'
    ip = InProc()
    fixed = impl_fixed(ip)
    rep.stage('variant', impl_recreates_cached_extra=fixed)
    if not fixed:
        rep.fail('find_from_filter does not re-create cached extra entries: after a lazy regeneration the extra '
                 'files of find_files drop out of the dist rule (DESIGN 7.4)',
                 {'stage': 'probe', 'files': {'build.bfg': "find_files('d/*.c', extra='*.h')\n", 'd/a.c': '', 'd/a.h': ''},
                  'repro': 'configure, add d/b.c, make dist: d/a.h is missing'}, classes=('find-cache-hit-extra',))
    nd = stage_w(rep, rng, 400 if thorough else 40, fixed, ip)
    before = len(rep.violations)
    stage_corpus(rep)
    stage_system(rep, rng, 50 if thorough else 3, 12 if thorough else 1)
    if nd and len(rep.violations) == before:
        # the tie broke but the oracle saw nothing: look for a failing input with ten times the budget
        stage_system(rep, rng, 100 if thorough else 30, 20 if thorough else 8)


def replay(rep, path):
    r = json.load(open(path))
    if r.get('stage') == 'system' and 'files' in r:
        g = Replayed(r)
        fails, info = check_project(rep, g, 'replay', regen=bool(r.get('regen')))
        rep.case(json.dumps(sorted(r['files'].items())), True)
        for what, detail, classes in fails:
            report_system(rep, g, what, detail, classes, bool(r.get('regen')))
        return
    run(rep)
