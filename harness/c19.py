"""C19 - Scripts are isolated and relative: submodules, options, user arguments."""
import contextlib
import io
import json
import os
import posixpath
import random
import re
import shutil
import subprocess
import sys

from . import common
from .common import d_str, d_bool, d_list

LEVEL = 'proof'
RULE = ('script trees: 1..8 directories (depth <= 5, names incl. blanks, dots, a drive-like "c:" and "build.bfg"), each '
        'with a script of 0..9 statements (assign / read / submodule / export / input / output / output-directory); '
        'submodule targets form a DAG (so ../sibling, a/b, repeated and detoured spellings, missing, escaping and '
        'absolute targets all occur); variable names are drawn from plain names and names of bfg9000 / Python builtins; '
        'every assigned / exported value is globally unique so the origin of a value seen anywhere is known. '
        'User arguments: 1..4 declarations (names with dashes, =, blanks, x-, enable-/with- look-alikes, duplicates, '
        'bad names) x 5 actions, command lines of plain and --x- spellings, =value and separate values, unknown '
        'options, stray words; in front of them a fixed list of declarations with the EMPTY name (the bare double dash as '
        'first / middle / last / only / repeated option string, under each of the 5 actions, in a parse and in a help group) '
        'and its look-alikes, each with 14 fixed command lines respelled token by token.  The variant of add_user_argument '
        'under test (does a nameless option string raise ValueError?) is probed on the real function; the model runs as that '
        'variant and the finding C19-x-alias-empty-name applies only to the unrepaired one - on the repaired one an accepted '
        'nameless declaration is reported with the command line whose two spellings differ.  A case is non-trivial when the tree has a nested submodule or a rejected/../ path '
        '(scripts) resp. at least one accepted declaration and one option token (arguments); distinct by exact text. '
        'Sibling projects: a near-prefix family of directory names (app/apputil, lib/lib64, a/ab ...) plus a control name, '
        'optionally below 1-2 parents; 1-3 scripted directories compiling own files and siblings\' files through ../ as '
        'executable/library (default intermediate directory or intermediate_dir=), object_file(directory=), '
        'copy_file(directory=). '
        'Configure-time values: real configure -> regeneration histories (a .bfg file or the toolchain file modified, then make; '
        'bfg9000 regenerate plain and --lazy; 2-3 events) of a C project that installs a program, a library, a header, a man '
        'page and a data file, configured with an optional toolchain file (install_dirs for 0-3 directories, environ, '
        'compile/link options), 0-4 installation directories on the command line (mostly overlapping with the toolchain '
        'file), --enable-static/--disable-shared/--disable-compdb and project-defined arguments in both spellings; '
        'non-trivial when the toolchain file and the command line both give installation directories.')
TRUSTED = ('Python semantics of exec / name lookup beyond globals-then-builtins; argparse (only the registration, '
           'defaults and long-option parsing fragment is modelled, checked against the real parser each run)',
           'os.path.expanduser modelled as the identity (no generated path starts with a tilde of an existing user)',
           'direct oracles: unique-value provenance of every read/export, os.path.normpath on the real scratch tree',
           'sibling-directory oracle: the documented placement rule written on component lists (predicted_within in harness/c19.py: '
           'path relative to the parent of the output directory, PAR per step up)',
           'variant detection: the probe (harness/c19.py alias_variant) calls the real add_user_argument of the tree under test '
           'with a nameless second option string and looks at ValueError / the registered strings; an undecidable probe is '
           'reported, not assumed')
EXPLANATION = ''

FN_BUILD, FN_OPTS = 'build.bfg', 'options.bfg'
EXN = ['ValueError', 'TypeError', 'NameError', 'FileNotFoundError', 'FileNotFoundError']
KINDS = {'relpath': 0, 'auto_file': 0, 'generic_file': 1, 'source_file': 1, 'header_file': 1, 'directory': 2,
         'header_directory': 2, '_out': 0, 'copy_file': 1, '_outdir': 0}

# ------------------------------------------------------------------------------------- in-process machinery
_STATE = {'log': None, 'ctx': None, 'ready': False}


def _setup_impl():
    if _STATE['ready']:
        return
    from bfg9000.builtins import builtin
    from bfg9000.builtins.path import relname, buildpath
    from bfg9000.path import Path

    def canon_path(p):
        p = getattr(p, 'path', p)
        if p.root.name == 'absolute':
            return 'nonrel'
        return ('ok', {'srcdir': 'src', 'builddir': 'bld'}.get(p.root.name, p.root.name), p.suffix, bool(p.directory))

    @builtin.function(context=('build', 'options'))
    def _rec(context, kind, *args):
        depth, cur = len(context.path_stack), context.path.suffix
        if kind == 'read':
            v = args[1]
            r = ('val', v) if isinstance(v, str) else 'builtin'
            _STATE['log'].append((depth, cur, 'read', args[0], r))
        elif kind == 'readerr':
            _STATE['log'].append((depth, cur, 'read', args[0], 'nameerror'))
        elif kind == 'sub':
            _STATE['log'].append((depth, cur, 'sub', args[0], list(args[1].items())))
        elif kind == 'suberr':
            _STATE['log'].append((depth, cur, 'suberr', args[0], type(sys.exc_info()[1]).__name__))
        elif kind in ('in', 'out'):
            _STATE['log'].append((depth, cur, kind, args[0], args[1], canon_path(args[2])))
        elif kind in ('inerr', 'outerr'):
            _STATE['log'].append((depth, cur, kind[:-3], args[0], args[1], 'err'))
        elif kind == 'outdir':
            _STATE['log'].append((depth, cur, kind, args[0], args[1], args[2], canon_path(args[3])))
        elif kind == 'outdirerr':
            _STATE['log'].append((depth, cur, 'outdir', args[0], args[1], args[2], 'err'))
        else:
            _STATE['log'].append((depth, cur, kind) + tuple(args))

    @builtin.function(context=('build', 'options'))
    def _out(context, p):
        return Path(relname(context, p))

    @builtin.function(context=('build', 'options'))
    def _outdir(context, p, strict):
        return buildpath(context, p, strict)

    def hook(context):
        _STATE['ctx'] = context
    builtin.pre_execute_hook(context=('build', 'options'))(hook)
    _STATE['ready'] = True


def make_env(src, bld, extra_args=None):
    from bfg9000.environment import Environment
    from bfg9000.path import abspath, InstallRoot
    env = Environment(abspath(os.path.join(bld, 'bfgdir')), None, None, abspath(src), abspath(bld))
    env.finalize({InstallRoot.prefix: abspath(os.path.join(bld, 'prefix'))}, (False, False), False,
                 extra_args=list(extra_args or []))
    return env


def builtin_names(kind):
    from bfg9000.builtins import builtin
    from bfg9000.build_inputs import BuildInputs
    from bfg9000.path import Path, Root
    import bfg9000.build  # noqa: F401  (registers everything)
    from bfg9000.builtins import init
    init()
    _setup_impl()
    d = common.scratch('c19n')
    try:
        env = make_env(d, os.path.join(d, 'b'))
        if kind == 'build':
            ctx = builtin.BuildContext(env, BuildInputs(env, Path(FN_BUILD, Root.srcdir)), None)
        else:
            ctx = builtin.OptionsContext(env, None)
        return sorted(k for k in ctx.builtins if isinstance(k, str))
    finally:
        shutil.rmtree(d, ignore_errors=True)


# ------------------------------------------------------------------------------------- generators
DIRNAMES = ['a', 'b', 'src', 'lib', 'x.y', 'd e', 'c:', 'bfg', '..x', 'A']
VARNAMES = ['a', 'b', 'x', 'y', 'val', 'e', 'r', '_v']
BUILTIN_VARS = ['submodule', 'export', 'relpath', 'generic_file', 'source_file', 'header_file', 'auto_file',
                'directory', '_out', '_outdir', 'copy_file', 'env', 'argv', 'print', 'len', 'str', 'repr',
                'isinstance', 'ValueError', 'NameError', 'Exception', 'argument', 'info']
LEAVES = ['f.c', 'g.h', 'sub', 'o', 'x y', '..x', '...', 'c:', 'c:x', 'build.bfg', 'A', 'a', 'b', 'lib']


class Tree:
    """dirs: list of component tuples; scripts: {dir tuple: [stmt]}; stmt = tuple starting with the kind."""

    def __init__(self, fname, kind):
        self.fname, self.kind, self.scripts = fname, kind, {}
        self.origin = {}       # value -> (dir, index)

    def to_model(self):
        out = []
        for d, ss in self.scripts.items():
            out.append([list(d) + [self.fname], [enc_stmt(s) for s in ss]])
        return out

    def to_json(self):
        return {'fname': self.fname, 'kind': self.kind,
                'scripts': [['/'.join(d), [list(s) for s in ss]] for d, ss in self.scripts.items()]}

    @staticmethod
    def from_json(j):
        t = Tree(j['fname'], j['kind'])
        for d, ss in j['scripts']:
            t.scripts[tuple(d.split('/')) if d else ()] = [tuple(s) for s in ss]
        return t


def enc_stmt(s):
    k = s[0]
    if k == 'assign':
        return [0, s[1], s[2]]
    if k == 'read':
        return [1, s[1]]
    if k == 'sub':
        return [2, s[1]]
    if k == 'export':
        return [3, s[1], s[2]]
    if k == 'in':
        return [4, s[1], s[2], KINDS[s[1]]]
    if k == 'out':
        return [5, s[1], s[2], KINDS[s[1]]]
    if k == 'outdir':
        return [6, s[1], s[2], bool(s[3])]
    raise KeyError(k)


def rel_spelling(rng, src, dst):
    """a string that leads from directory tuple src to directory tuple dst, with occasional detours"""
    s = posixpath.relpath('/' + '/'.join(dst), '/' + '/'.join(src))
    r = rng.random()
    if r < 0.12:
        s = './' + s
    elif r < 0.22:
        s = s + '/'
    elif r < 0.30:
        s = s.replace('/', '//', 1)
    elif r < 0.38:
        s = s.replace('/', '\\')
    elif r < 0.46:
        s = 'zz/../' + s
    elif r < 0.52 and src:
        s = '../' + src[-1] + '/' + s
    if s[1:2] == ':':
        s = './' + s             # a drive-like start would make the string absolute (C12), not a submodule path
    return s


def gen_path(rng, here, rep=None):
    """an input/output path string for a script in directory tuple `here`"""
    r = rng.random()
    ups = 0
    if r < 0.35:
        ups = rng.randint(0, len(here) + 1)
    parts = ['..'] * ups
    for _ in range(rng.randint(0 if ups else 1, 3)):
        q = rng.random()
        if q < 0.08:
            parts.append('.')
        elif q < 0.14:
            parts.append('')
        elif q < 0.26:
            parts.append('..')
        else:
            parts.append(rng.choice(LEAVES))
    if parts[0] == '' and len(parts) > 1:
        parts[0] = '.'            # a leading empty component would make the string absolute
    sep = '\\' if rng.random() < 0.08 else '/'
    s = sep.join(parts)
    q = rng.random()
    if s[:1] in ('/', '\\') or (q < 0.08 and not s):
        s = '.' + s               # only the explicit branches below produce absolute strings
    if q < 0.08:
        s += '/'
        if s[1:2] == ':' and s[2:3] in ('/', '\\'):
            s = './' + s          # drive + separator would be absolute
    elif q < 0.11:
        s = '/nonexistent-c19/' + s.strip('/\\.') + 'q'
    elif q < 0.13:
        s = 'c:/' + s.strip('/\\.') + 'q'
    elif q < 0.15:
        s = '\\' + s.strip('/\\.') + 'q'
    elif s[1:2] == ':' and s[2:3] in ('/', '\\'):
        s = './' + s
    if rep is not None:
        rep.count('path:' + ('ups%d' % min(ups, 3)) + (':abs' if s[:1] in '/\\' else ''))
    return s


def tree_cost(t):
    """upper bound of the number of statements executed (repeated inclusion multiplies)"""
    memo = {}

    def cost(d):
        if d in memo:
            return memo[d]
        memo[d] = 10 ** 9          # a cycle would be a generator bug
        c = 1
        for s in t.scripts.get(d, ()):
            c += 1
            if s[0] == 'sub':
                tgt = posixpath.normpath(posixpath.join('/'.join(d) or '.', s[1].replace('\\', '/')))
                tgt = () if tgt == '.' else tuple(tgt.split('/'))
                if tgt in t.scripts and not tgt[:1] == ('..',):
                    c += cost(tgt)
        memo[d] = c
        return c
    return cost(())


def gen_tree(rng, rep, kind='build', real=False):
    while True:
        t = gen_tree1(rng, rep, kind, real)
        if tree_cost(t) <= 400:
            return t
        if rep is not None:
            rep.count('tree:regenerated-too-large')


def gen_tree1(rng, rep, kind='build', real=False):
    fname = FN_BUILD if kind == 'build' else FN_OPTS
    t = Tree(fname, kind)
    dirs = [()]
    for _ in range(rng.randint(1, 8)):
        parent = dirs[-1] if rng.random() < 0.45 else rng.choice(dirs)
        if len(parent) >= 5:
            continue
        names = DIRNAMES
        d = parent + (rng.choice(names) if rng.random() < 0.8 else rng.choice(['a', 'b', 'lib']),)
        if d == ('c:',):
            continue              # a drive-like FIRST component turns the script path itself absolute (C12)
        if d not in dirs:
            dirs.append(d)
    order = [()] + rng.sample(dirs[1:], len(dirs) - 1)       # DAG order: a script includes later ones only
    has_script = {d: (d == () or rng.random() < 0.92) for d in dirs}
    counter = [0]

    def val():
        counter[0] += 1
        return 'v%d' % counter[0]

    if kind == 'build':
        ins = ['relpath', 'generic_file', 'source_file', 'header_file', 'auto_file', 'directory', 'header_directory']
        outs = ['copy_file'] if real else ['_out', '_out', 'copy_file']
    else:
        ins = ['relpath']
        outs = ['_out']
    tree_names = rng.sample(VARNAMES, 2) + rng.sample(BUILTIN_VARS, rng.randint(1, 2))
    for i, d in enumerate(order):
        if not has_script[d]:
            continue
        ss = []
        names = tree_names
        later = order[i + 1:]
        n = rng.randint(0, 9) if rng.random() < 0.2 else rng.randint(3, 9)
        for j in range(n):
            r = rng.random()
            if r < 0.22:
                v = val()
                x = rng.choice(names)
                if real and x in ('print', 'repr', 'isinstance', 'str'):
                    x = 'a'
                t.origin[v] = (d, j)
                ss.append(('assign', x, v))
            elif r < 0.46:
                ss.append(('read', rng.choice(names)))
            elif r < 0.64:
                q = rng.random()
                if later and q < 0.88:
                    tgt = rng.choice(later)
                    ss.append(('sub', rel_spelling(rng, d, tgt)))
                elif q < 0.91:
                    ss.append(('sub', 'nonexistent'))
                elif q < 0.95:
                    ss.append(('sub', '/'.join(['..'] * (len(d) + rng.randint(0, 1))) or '..'))
                elif q < 0.97:
                    ss.append(('sub', '/nonexistent-c19/zz'))
                else:
                    ss.append(('sub', 'c:x'))
            elif r < 0.74:
                v = val()
                t.origin[v] = (d, j)
                x = rng.choice(names)
                if d == () and rng.random() < 0.9:
                    ss.append(('read', x))        # a root-level export ends the run: keep it rare
                else:
                    ss.append(('export', x, v))
            elif r < 0.86:
                ss.append(('in', rng.choice(ins), gen_path(rng, d, rep)))
            elif r < 0.95 or real:
                ss.append(('out', rng.choice(outs), gen_path(rng, d, rep)))
            else:
                ss.append(('outdir', '_outdir', gen_path(rng, d, rep), rng.random() < 0.5))
        if later and not any(s[0] == 'sub' for s in ss) and rng.random() < 0.8:
            ss.insert(rng.randint(0, len(ss)), ('sub', rel_spelling(rng, d, rng.choice(later))))
            for v, (dd, j) in list(t.origin.items()):
                if dd == d:
                    t.origin[v] = (dd, -1)        # indices shifted: origin index unused below
        t.scripts[d] = ss
    t.dirs = dirs
    return t


# ------------------------------------------------------------------------------------- script text
def B(n):
    return "__builtins__[%r]" % n


def emit_script(ss, real=False):
    """Python text of one script.  Every probe goes through __builtins__[...] so that rebinding a name in the
    script never disturbs the probe itself; the probed calls (submodule, export, f(p)) use the plain names."""
    L = []
    if real:
        def rec(*parts):
            return "%s('@@C19', %s((%s,)))" % (B('print'), B('repr'), ', '.join(parts))
    else:
        def rec(*parts):
            return "%s(%s)" % (B('_rec'), ', '.join(parts))
    for s in ss:
        k = s[0]
        if k == 'assign':
            L.append('%s = %r' % (s[1], s[2]))
        elif k == 'read':
            x = s[1]
            if real:
                val = "(('val', %s) if %s(%s, %s) else 'builtin')" % (x, B('isinstance'), x, B('str'))
                L += ['try:', '    ' + rec("'read'", repr(x), val), 'except %s:' % B('NameError'),
                      '    ' + rec("'read'", repr(x), "'nameerror'")]
            else:
                L += ['try:', '    ' + rec("'read'", repr(x), x), 'except %s:' % B('NameError'),
                      '    ' + rec("'readerr'", repr(x))]
        elif k == 'sub':
            d = s[1]
            # the includer keeps what it received and MUTATES it afterwards (a key of its own): what a submodule exports
            # reaches exactly this caller, so the mutation must never show up in what any other inclusion returns
            mut = '_c19_got[%r] = %r' % ('zz_mutated_by_includer_%d' % len(L), 'leak')
            if real:
                L += ['try:', '    _c19_got = submodule(%r)' % d,
                      '    ' + rec("'sub'", repr(d), '%s(_c19_got.items())' % B('list')), '    ' + mut,
                      'except %s:' % B('Exception'),
                      '    ' + rec("'suberr'", repr(d), "%s(%s['__import__']('sys').exc_info()[1]).__name__" % (
                          B('type'), '__builtins__'))]
            else:
                L += ['try:', '    _c19_got = submodule(%r)' % d, '    ' + rec("'sub'", repr(d), '_c19_got'), '    ' + mut,
                      'except %s:' % B('Exception'),
                      '    ' + rec("'suberr'", repr(d))]
        elif k == 'export':
            L.append('export(%s=%r)' % (s[1], s[2]))
            L.append(rec("'export'", repr(s[1]), repr(s[2])))
        elif k in ('in', 'out'):
            f, p = s[1], s[2]
            call = '%s(%r)' % (f, p) if f != 'copy_file' else "copy_file(%r, %r)" % (p, 'build.bfg')
            if real:
                call = "(lambda _r: %s(%s(_r, 'path', _r)))(%s)" % (B('repr'), B('getattr'), call)
                L += ['try:', '    ' + rec(repr(k), repr(f), repr(p), call), 'except %s:' % B('ValueError'),
                      '    ' + rec(repr(k), repr(f), repr(p), "'err'")]
            else:
                L += ['try:', '    ' + rec(repr(k), repr(f), repr(p), call), 'except %s:' % B('ValueError'),
                      '    ' + rec(repr(k + 'err'), repr(f), repr(p))]
        elif k == 'outdir':
            f, p, st = s[1], s[2], bool(s[3])
            L += ['try:', '    ' + rec("'outdir'", repr(f), repr(p), repr(st), '%s(%r, %r)' % (f, p, st)),
                  'except %s:' % B('ValueError'), '    ' + rec("'outdirerr'", repr(f), repr(p), repr(st))]
    return '\n'.join(L) + '\n'


def write_tree(t, src, real=False):
    for d in getattr(t, 'dirs', t.scripts.keys()):
        os.makedirs(os.path.join(src, *d), exist_ok=True)
    for d, ss in t.scripts.items():
        os.makedirs(os.path.join(src, *d), exist_ok=True)
        with open(os.path.join(src, *(d + (t.fname,))), 'w') as f:
            f.write(emit_script(ss, real))


# ------------------------------------------------------------------------------------- running
def run_inproc(t, src, bld):
    """Execute the tree with the real configure_build / _execute_options.  Returns (flat log, end, seen)."""
    from bfg9000 import build
    _setup_impl()
    env = make_env(src, bld)
    _STATE['log'], _STATE['ctx'] = [], None
    cwd = os.getcwd()
    try:
        if t.kind == 'build':
            build.configure_build(env)
        else:
            build._execute_options(env)
        end = ('done',)
    except RecursionError:
        end = ('crash', 'RecursionError')
    except Exception as e:
        end = ('crash', type(e).__name__)
    finally:
        os.chdir(cwd)
    ctx = _STATE['ctx']
    seen = [p.suffix for p in ctx.seen_paths] if ctx is not None else None
    return _STATE['log'], end, seen


def d_pres(r):
    if r[0] == 0:
        return ('ok', 'bld' if r[1] else 'src', '/'.join(d_str(c) for c in r[2]), d_bool(r[3]))
    return 'nonrel' if r[0] == 1 else 'err'


def flatten_model(raw, fname):
    """model result -> (flat log, end, seen) in the shape run_inproc returns; None when out of fuel"""
    if not raw:
        return None
    evs, out, seen = raw[0]
    log = []

    def walk(evs, depth, cur):
        for e in evs:
            k = e[0]
            if k == 0:
                continue
            if k == 1:
                r = e[2]
                rv = ('val', d_str(r[1])) if r[0] == 0 else ('builtin' if r[0] == 1 else 'nameerror')
                log.append((depth, cur, 'read', d_str(e[1]), rv))
            elif k == 2:
                path = '/'.join(d_str(c) for c in e[2])
                walk(e[3], depth + 1, path)
                o = e[4]
                if o[0] == 0:
                    log.append((depth, cur, 'sub', d_str(e[1]), [(d_str(a), d_str(b)) for a, b in o[1]]))
                else:
                    log.append((depth, cur, 'suberr', d_str(e[1]), EXN[o[1]]))
            elif k == 3:
                log.append((depth, cur, 'export', d_str(e[1]), d_str(e[2])))
            elif k in (4, 5):
                log.append((depth, cur, 'in' if k == 4 else 'out', d_str(e[1]), d_str(e[2]), d_pres(e[3])))
            elif k == 6:
                log.append((depth, cur, 'outdir', d_str(e[1]), d_str(e[2]), d_bool(e[3]), d_pres(e[4])))
            elif k == 7:
                log.append((depth, cur, 'suberr', d_str(e[1]), EXN[e[2]]))
    walk(evs, 1, fname)
    end = ('done',) if out[0] == 0 else ('crash', EXN[out[1]])
    return log, end, [fname] + ['/'.join(d_str(c) for c in p) for p in seen]


def model_call(t, bi):
    return ('scope.exec', [bi, t.fname, t.to_model(), len(t.scripts) + 2])


# ------------------------------------------------------------------------------------- direct oracles
def oracle_tree(t, log, end, src):
    """Property checks on the real trace that use only the generated tree (no model).
    Returns a list of (what, classes)."""
    bad = []
    # index records per activation: a new activation of script P starts whenever depth/cur changes to a deeper one
    pos = {}          # (depth, cur, activation serial) -> next statement index expected
    stack = []        # [(cur, stmt index)]

    def script_dir(cur):
        c = cur.split('/')[:-1]
        return tuple(c)
    # replay the flat log against the script texts
    acts = [[script_dir(t.fname), 0, {}, []]]       # dir, next stmt index, own assignments so far, own exports
    for rec in log:
        depth, cur = rec[0], rec[1]
        while len(acts) > depth:
            acts.pop()
        while len(acts) < depth:
            acts.append([None, 0, {}, []])
        a = acts[-1]
        d = script_dir(cur)
        if a[0] is None:
            a[0] = d
        if a[0] != d:
            acts[-1] = a = [d, 0, {}, []]
        ss = t.scripts.get(d)
        if ss is None:
            bad.append(('record from a script that does not exist: %r' % (rec,), ()))
            continue
        # advance to the statement that produced this record, applying assignments passed on the way
        kind = rec[2]
        want = {'read': 'read', 'sub': 'sub', 'suberr': 'sub', 'export': 'export', 'in': 'in', 'out': 'out',
                'outdir': 'outdir'}[kind]
        i = a[1]
        while i < len(ss) and not (ss[i][0] == want and (want in ('read', 'sub', 'export') and ss[i][1] == rec[3] or
                                                          want in ('in', 'out', 'outdir') and ss[i][2] == rec[4])):
            if ss[i][0] == 'assign':
                a[2][ss[i][1]] = ss[i][2]
            i += 1
        if i >= len(ss):
            bad.append(('record %r does not correspond to a statement of its script' % (rec,), ()))
            continue
        a[1] = i + 1
        if kind == 'read':
            x, r = rec[3], rec[4]
            exp = a[2].get(x)
            if isinstance(r, tuple):
                if r[1] != exp:
                    o = t.origin.get(r[1])
                    where = ('another script (%s)' % ('/'.join(o[0]) or '<root>') if o and o[0] != d else
                             'this script but not as its latest earlier assignment in this execution' if o else
                             'some other execution')
                    bad.append(('script %r reads %s = %r, which was assigned in %s; its own latest assignment is %r' % (
                        cur, x, r[1], where, exp), ('scope-leak',)))
            elif exp is not None:
                bad.append(('script %r lost its own assignment %s = %r (read gives %r)' % (cur, x, exp, r), ('scope-lost',)))
        elif kind == 'export':
            a[3] = [(k, v) for k, v in a[3]]
            for n, (k, v) in enumerate(a[3]):
                if k == rec[3]:
                    a[3][n] = (k, rec[4])
                    break
            else:
                a[3].append((rec[3], rec[4]))
            if len(acts) == 1:
                bad.append(('export succeeded in the root script', ('root-export',)))
        elif kind == 'sub':
            # the returned dict must consist of values exported by the callee script only
            dstr = rec[3].replace('\\', '/')
            tgt = posixpath.normpath(posixpath.join('/'.join(d) or '.', dstr))
            tgt = () if tgt == '.' else tuple(tgt.split('/'))
            css = t.scripts.get(tgt)
            if css is None:
                bad.append(('submodule(%r) in %r returned although no such script exists' % (rec[3], cur), ()))
            else:
                exp = []
                for s in css:
                    if s[0] == 'export':
                        for n, (k, v) in enumerate(exp):
                            if k == s[1]:
                                exp[n] = (k, s[2])
                                break
                        else:
                            exp.append((s[1], s[2]))
                if rec[4] != exp:
                    bad.append(('submodule(%r) called in %r returned %r; the exports of that script are %r' % (
                        rec[3], cur, rec[4], exp), ('exports-mismatch',)))
        elif kind in ('in', 'out', 'outdir'):
            p = rec[4]
            r = rec[-1]
            if '\\' in p or p[:1] == '/' or p[1:2] == ':' or any(c[1:2] == ':' for c in p.split('/')) \
                    or any(c[1:2] == ':' for c in d):
                continue         # separator / drive handling: the model's and C12's business, no os.path oracle
            full = os.path.normpath(os.path.join(src, *d, p))
            inside = full == src or full.startswith(src + os.sep)
            if r == 'err':
                f = rec[3]
                dirlike = posixpath.basename(p) in ('', '.', '..') or full == src
                if inside and not (KINDS[f] == 1 and dirlike):
                    bad.append(('%s(%r) in script %r is rejected although %s is inside the root' % (f, p, cur, full),
                                ('path-rejected',)))
            elif r == 'nonrel':
                bad.append(('%s(%r) in script %r became absolute' % (rec[3], p, cur), ('path-absolute',)))
            else:
                got = os.path.normpath(os.path.join(src, r[2]))
                exp_root = 'src' if kind == 'in' else 'bld'
                if not inside or got != full or r[1] != exp_root:
                    bad.append(('%s(%r) in script %r resolved to %s:%r, expected %s relative to the script directory' % (
                        rec[3], p, cur, r[1], r[2], os.path.relpath(full, src) if inside else 'a rejection'),
                        ('path-wrong',)))
    return bad


# ------------------------------------------------------------------------------------- stages: scripts
def nontrivial_tree(t, log):
    return any(r[0] >= 2 for r in log) or any(r[-1] == 'err' for r in log)


def stage_scope(rep, rng, n, bi_build, bi_opts, corpus=()):
    d = common.scratch('c19s')
    dis, found = [], 0
    try:
        trees = []
        for j in corpus:
            trees.append(Tree.from_json(j))
        for i in range(n):
            trees.append(gen_tree(rng, rep, 'options' if i % 6 == 5 else 'build'))
        calls, impl, keep = [], [], []
        for idx, t in enumerate(trees):
            src = os.path.join(d, 's%d' % idx)
            bld = os.path.join(d, 'b%d' % idx)
            os.makedirs(src)
            os.makedirs(bld)
            write_tree(t, src)
            log, end, seen = run_inproc(t, src, bld)
            rep.traces += 1
            rep.count('tree:%s' % t.kind)
            rep.count('end:' + '/'.join(end))
            rep.count('maxdepth:%d' % max([r[0] for r in log] + [1]))
            for r in log:
                rep.count('rec:' + r[2] + (':' + (r[-1] if isinstance(r[-1], str) else r[-1][0])
                                           if r[2] in ('in', 'out', 'outdir', 'read', 'suberr') else ''))
            rep.case(json.dumps(t.to_json(), sort_keys=True), nontrivial_tree(t, log))
            for what, classes in oracle_tree(t, log, end, src):
                found += 1
                rep.fail(what, {'tree': t.to_json(), 'trace': log, 'end': end,
                                'replay_hint': 'write the tree with harness.c19.write_tree and run bfg9000 configure'},
                         classes=classes)
            calls.append(model_call(t, bi_build if t.kind == 'build' else bi_opts))
            impl.append((log, end, seen))
            keep.append(t)
            shutil.rmtree(src, ignore_errors=True)
            shutil.rmtree(bld, ignore_errors=True)
        if trees:
            rep.sample({'stage': 'W:scope', 'tree': trees[-1].to_json(), 'trace': [list(map(str, r)) for r in impl[-1][0][:12]]})

        def dec(name, raw):
            t = keep[dec.i]
            dec.i += 1
            return flatten_model(raw, t.fname)
        dec.i = 0
        dis = common.compare_model(rep, 'W:scope', calls, impl, dec, vm_limit=25)
        dis = [(i, keep[i], iv, mv) for i, _, iv, mv in dis]
    finally:
        shutil.rmtree(d, ignore_errors=True)
    rep.stage('oracle:scope', trees=len(trees), failures=found)
    return dis, found


def stage_paths(rep, rng, n):
    """W: Scope.ensure / relname_path against Path.ensure / relname on random strings and bases"""
    from bfg9000.path import Path, Root
    from bfg9000.builtins.path import relname, buildpath

    class Ctx:
        def __init__(self, cur):
            self.path = cur

        def __getitem__(self, k):
            assert k == 'relpath'
            return lambda p, strict=False: Path.ensure(p, self.path.parent(), strict=strict)
    alphabet = ['a', 'b', '.', '.', '/', '/', '\\', ':', ' ', 'c', '~']
    calls, impl = [], []
    corpus = ['', '.', '..', '/', '//', 'a', 'a/', 'a/..', 'a/../..', '../a', './a', 'a//b', 'a\\b', 'a\\..\\..',
              'c:', 'c:a', 'c:/a', 'c:\\a', ':', 'a:', 'a:/', '...', '..a', 'a..', './c:', 'c:/..', 'x/c:', ' ', 'a b',
              '~zzznouser', 'a/~', '\\', '\\a', '..\\a', 'a/./b/../c/']
    for i in range(n + len(corpus)):
        if i < len(corpus):
            p = corpus[i]
        elif rng.random() < 0.5:
            p = ''.join(rng.choice(alphabet) for _ in range(rng.randint(0, 8)))
        else:
            p = gen_path(rng, ('a',) * rng.randint(0, 3))
        if p.startswith('//') or p.startswith('\\\\') or p.startswith('/\\') or p.startswith('\\/') or \
                (p.startswith('~') and os.path.expanduser(p) != p) or \
                (p[1:2] == ':' and p[3:4] == ':' and p[4:5] in ('/', '\\')):     # drive + second drive-like: C12
            rep.count('pathstr:skipped-unc-or-home')
            continue
        base = [rng.choice(['a', 'b', 'c:', 'x y']) for _ in range(rng.randint(0, 3))]
        strict = rng.random() < 0.3
        root = rng.random() < 0.5

        def canon(f):
            try:
                r = f()
            except ValueError:
                return 'err'
            if r.root == Root.absolute:
                return 'nonrel'
            return ('ok', 'bld' if r.root == Root.builddir else 'src', r.suffix, bool(r.directory))
        rt = Root.builddir if root else Root.srcdir
        if base and base[0][1:2] == ':':
            base[0] = 'q'          # a base path is itself a parsed path: no drive-like first component
        basep = Path('/'.join(base), rt, directory=True)
        calls.append(('scope.ensure', [p, root, base, strict]))
        impl.append(canon(lambda: Path.ensure(p, basep, strict=strict)))
        cur = basep.reroot(Root.srcdir).append('build.bfg')
        if isinstance(impl[-1], tuple) and os.path.expanduser(impl[-1][2]) != impl[-1][2]:
            rep.count('pathstr:skipped-unc-or-home')       # the suffix is parsed again and would expand
        else:
            calls.append(('scope.relname_path', [base + ['build.bfg'], p]))
            impl.append(canon(lambda: Path(relname(Ctx(cur), p))))
        rep.case('p:%r:%r' % (p, base), '..' in p or '\\' in p or ':' in p)
        rep.count('pathstr:' + (impl[-1] if isinstance(impl[-1], str) else 'ok'))

    def dec(name, raw):
        return d_pres(raw)
    return common.compare_model(rep, 'W:paths', calls, impl, dec, vm_limit=60)


def stage_real_configure(rep, rng, n, bi_build):
    """system level: the same kind of generated tree through the real `bfg9000 configure` (a subprocess)"""
    bad = 0
    bi_build = [b for b in bi_build if b not in ('_rec', '_out', '_outdir')]     # the probes exist only in-process
    d = common.scratch('c19r')
    try:
        for i in range(n):
            t = gen_tree(rng, None, 'build', real=True)
            src, bld = os.path.join(d, 'src%d' % i), os.path.join(d, 'bld%d' % i)
            os.makedirs(src)
            write_tree(t, src, real=True)
            p = subprocess.run(['bfg9000', 'configure', bld, '--backend=make', '--no-resolve-packages'], cwd=src,
                               env=common.impl_env(), capture_output=True, text=True, timeout=120)
            got = []
            for line in p.stdout.split('\n'):
                if line.startswith('@@C19 '):
                    got.append(eval(line[6:], {'__builtins__': {}}))
            raw = common.model_batch([model_call(t, bi_build)])[0]
            m = flatten_model(raw, t.fname)
            exp = []
            for r in m[0]:
                r = r[2:]
                if r[0] in ('in', 'out'):
                    v = r[3]
                    if isinstance(v, tuple):
                        root = '$(srcdir)' if v[1] == 'src' else '$(builddir)'
                        v = '`%s%s%s`' % (root, '/' + v[2] if v[2] else '', '/' if v[3] else '')
                    r = (r[0], r[1], r[2], v)
                exp.append(tuple(r))
            got2 = []
            for r in got:
                if r[0] in ('in', 'out') and r[3] != 'err' and not r[3].startswith('`$('):
                    r = (r[0], r[1], r[2], 'nonrel')
                got2.append(tuple(r))
            rep.traces += 1
            rep.count('real:records', len(got2))
            rep.count('real:exit%d' % p.returncode)
            rep.case('real:' + json.dumps(t.to_json(), sort_keys=True), len(got2) > 3)
            ok_end = (p.returncode == 0) == (m[1] == ('done',)) or m[1] == ('done',)   # backend may reject duplicate outputs
            if got2 != exp or not ok_end:
                bad += 1
                k = next((j for j, (a, b) in enumerate(zip(got2, exp)) if a != b), min(len(got2), len(exp)))
                rep.fail('real configure run and model disagree at record %d: real %r, model %r (exit %d, model end %r)' % (
                    k, got2[k:k + 1], exp[k:k + 1], p.returncode, m[1]),
                    {'obligation': 'system:configure', 'tree': t.to_json(), 'real': got2, 'model': exp,
                     'stderr': p.stderr[-1500:]}, found_input=False)
            shutil.rmtree(src, ignore_errors=True)
            shutil.rmtree(bld, ignore_errors=True)
    finally:
        shutil.rmtree(d, ignore_errors=True)
    rep.stage('system:configure', runs=n, disagreements=bad)
    return bad


# ------------------------------------------------------------------------------------- stages: user arguments
ACTIONS = ['store', 'store_true', 'store_false', 'enable', 'with']
ARGNAMES = ['foo', 'bar', 'foo-bar', 'foo_bar', 'x', 'xy', 'enable-foo', 'disable-foo', 'with-bar', 'without-bar',
            'a=b', 'a', 'b c', '-a', 'enable', 'Foo', 'é', 'xfoo', 'foo=', 'x_foo']
BADNAMES = ['x-', 'x-foo', '', '-', '--', 'x-enable-foo']


def gen_decls(rng):
    decls = []
    for _ in range(rng.randint(1, 4)):
        names = []
        for _ in range(rng.choice([1, 1, 1, 2, 2, 3, 0] if rng.random() < 0.15 else [1, 1, 2])):
            nm = rng.choice(ARGNAMES if rng.random() < 0.93 else BADNAMES)
            r = rng.random()
            if r < 0.96:
                nm = '--' + nm              # what the `argument` builtin does
            elif r < 0.98:
                nm = '-' + nm
            names.append(nm)
        decls.append((names, rng.randrange(5)))
    return decls


def real_parser(decls, usage):
    from bfg9000.arguments import parser as ap
    p = ap.ArgumentParser(prog='c19', add_help=False)
    g = p.add_argument_group('project-defined arguments')
    g.usage = usage
    for i, (names, act) in enumerate(decls):
        try:
            ap.add_user_argument(g, *names, action=ACTIONS[act])
        except ValueError:
            return None, (i, 'ValueError')
        except TypeError:
            return None, (i, 'TypeError')
        except ap.ArgumentError:
            return None, (i, 'ArgumentError')
    return p, None


def real_table(p):
    out = []
    for s, a in p._option_string_actions.items():
        out.append((s, a.dest, s in getattr(a, 'true_strings', ())))
    return out


def real_parse(p, argv):
    err = io.StringIO()
    try:
        with contextlib.redirect_stderr(err):
            ns = p.parse_args(argv)
    except SystemExit:
        return 'error'
    return sorted((k, ('none',) if v is None else (('str', v) if isinstance(v, str) else ('bool', v)))
                  for k, v in vars(ns).items())


def gen_argv(rng, decls, table, p=None):
    strings = [s for s, _, _ in table] or ['--foo']
    argv = []
    for _ in range(rng.randint(0, 4)):
        r = rng.random()
        if r < 0.78:
            s = rng.choice(strings)
            a = p._option_string_actions.get(s) if p is not None else None
            flag = a is not None and a.nargs == 0
            q = rng.random()
            if q < (0.08 if flag else 0.40):
                argv.append(s + '=' + rng.choice(['1', '', 'a b', '--foo', 'x=y', 'val']))
            else:
                argv.append(s)
                if q > (0.92 if flag else 0.48):
                    argv.append(rng.choice(['val', '1', '', 'a b', '--b c', 'x=y']))
        elif r < 0.84:
            argv.append(rng.choice(['val', '0', '']))
        elif r < 0.92:
            argv.append('--' + rng.choice(['zz', 'x-zz', 'fo', 'foo=1', 'enable-zz', 'x-', 'x', 'zz=1', 'z z']))
        elif r < 0.96:
            argv.append(rng.choice(strings)[:-1] or '--q')        # an abbreviation: must not be accepted
        else:
            argv.append(rng.choice(['-f', '--', '-', '-1', '-x-foo']))
    return argv


def py_respell(table, mask, argv):
    plain = {s for s, _, _ in table if s.startswith('--') and not s.startswith('--x-')}
    out = []
    for i, t in enumerate(argv):
        b = mask[i] if i < len(mask) else False
        head = t.split('=', 1)[0]
        if b and (t in plain or ('=' in t and head in plain)) and t.startswith('--') and not t.startswith('--x-'):
            t = '--x-' + t[2:]
        out.append(t)
    return out


def d_ns(raw):
    if raw[0] == 0:
        return 'outside'
    if raw[0] == 1:
        return 'error'
    out = []
    for k, v in raw[1]:
        out.append((d_str(k), ('none',) if v[0] == 0 else (('str', d_str(v[1])) if v[0] == 1 else ('bool', d_bool(v[1])))))
    return sorted(out)


# ----- which add_user_argument is under test (finding C19-x-alias-empty-name)
ALIAS_ID = 'C19-x-alias-empty-name'
ALIAS_CLASS = 'x-alias-empty-name'
_VARIANT = {}


def alias_variant(rep=None):
    """The variant of arguments/parser.py add_user_argument in the tree under test, found by calling the REAL function:
    an option string without a name (the bare double dash, what the `argument` builtin hands over for the name '') is
    given as SECOND name of a store argument of a 'parse' group (as first name argparse itself rejects it: no dest).
    True iff that raises ValueError (the repaired function), False when it is accepted and registered (as first
    written).  Probed once per process.  A probe that cannot be decided is reported (no-failing-input-found) and counts
    as 'not repaired'."""
    if 'v' in _VARIANT:
        return _VARIANT['v']
    try:
        from bfg9000.arguments import parser as ap
        p = ap.ArgumentParser(prog='c19probe', add_help=False)
        g = p.add_argument_group('project-defined arguments')
        g.usage = 'parse'
        try:
            ap.add_user_argument(g, '--variantprobe', '--', action='store')
            if '--' not in p._option_string_actions or '--variantprobe' not in p._option_string_actions:
                raise RuntimeError('the nameless option string was accepted but is not registered: %r' % (
                    sorted(p._option_string_actions),))
            _VARIANT['v'] = False
            _VARIANT['detail'] = "add_user_argument(g, '--variantprobe', '--') registered %r" % (
                sorted(p._option_string_actions),)
        except ValueError as e:
            _VARIANT['v'] = True
            _VARIANT['detail'] = "add_user_argument(g, '--variantprobe', '--') raised ValueError(%r)" % (str(e),)
    except Exception:
        import traceback
        _VARIANT['v'] = False
        _VARIANT['detail'] = 'probe failed'
        if rep is not None:
            rep.fail('the variant of add_user_argument in the tree under test could not be determined (probe with a nameless '
                     'option string neither raised ValueError nor registered it)',
                     {'obligation': 'variant probe', 'traceback': traceback.format_exc()}, found_input=False)
    return _VARIANT['v']


def own_findings():
    try:
        return json.load(open(os.path.join(common.VERIF, 'findings.d', 'C19.json')))
    except (OSError, ValueError):
        return []


def alias_finding_status():
    """top-level status of the finding in findings.d/C19.json ('open' until the repair has landed in /repo)"""
    for k in own_findings():
        if k.get('id') == ALIAS_ID:
            return k.get('status')
    return None


def model_variant(rep=None):
    """The `fixed` flag the UserArgs MODEL is run with (Misc/UserArgs.v user_names / declare): the repaired function when
    the tree under test has it, and also - whatever the tree has - once the finding is recorded as fixed: a tree that
    accepts a nameless option string again then disagrees with the model in W:userargs as well."""
    return bool(alias_variant(rep) or alias_finding_status() == 'fixed')


def select_findings(rep):
    """Which known findings apply to THIS run.  findings.d/C19.json is authoritative for its ids (known_findings.json is
    merged from it by the coordinator).  The empty-name finding depends on the variant of add_user_argument under test:
      repaired tree              -> it counts as FIXED: not in rep.known, no KNOWN-FINDING line, an accepted nameless
                                    declaration / a differing spelling is a VIOLATION;
      unrepaired, status 'open'  -> known finding (KNOWN-FINDING line);
      unrepaired, status 'fixed' -> a regression: nothing is suppressed, the differing spellings are a VIOLATION.
    Returns (repaired, top-level status)."""
    repaired = alias_variant(rep)
    own = [k for k in own_findings() if k.get('property') == 'C19']
    ids = set(k['id'] for k in own)
    rep.known = [k for k in rep.known if k['id'] not in ids]
    for k in own:
        if k.get('status') != 'open':
            continue
        if k['id'] == ALIAS_ID and repaired:
            continue
        rep.known.append(k)
    status = alias_finding_status()
    rep.stage('variant:add_user_argument', repaired=repaired, probe=_VARIANT.get('detail'), finding_status=status,
              model_fixed=model_variant(rep), finding_applies=any(k['id'] == ALIAS_ID for k in rep.known))
    return repaired, status


def nameless(decls):
    """indices of the declarations that hand add_user_argument an option string without a name, all names well-formed
    otherwise (every name starts with two dashes) - the ones the repaired function must reject with ValueError"""
    return [i for i, (names, _) in enumerate(decls) if '--' in names and all(nm.startswith('--') for nm in names)]


# declarations / command lines that run first in every W:userargs stage, on both variants: the empty name in every position
# and under every action, next to look-alikes that must stay legal (an empty name under a toggle prefix, a name that is a dash)
DIRECTED_DECLS = [
    [(['--foo', '--'], 0)], [(['--foo', '--'], 1)], [(['--foo', '--'], 2)], [(['--foo', '--'], 3)], [(['--foo', '--'], 4)],
    [(['--', '--foo'], 0)], [(['--'], 0)], [(['--'], 3)], [(['--'], 4)], [(['--bar'], 1), (['--foo', '--'], 0)],
    [(['--bar'], 0), (['--baz', '--', '--qux'], 0)], [(['--foo', '--', '--'], 0)], [(['--foo', '--', '--x-'], 0)],
    [(['--foo', '--', '-'], 0)], [(['--foo', '---'], 0)], [(['--foo', '--='], 0)], [(['--foo', '-- '], 0)],
    [(['--foo'], 0), (['--enable'], 3)], [(['--foo', '--x'], 0)],
]
DIRECTED_ARGV = [['--', 'v'], ['--'], ['--foo', 'v', '--'], ['--=v'], ['--foo=v'], ['--foo', 'v'], ['--x-', 'v'], ['--x-=v'],
                 ['--', '--foo', 'v'], ['--foo'], ['--enable-'], ['--disable-'], ['--with-'], ['--without-', '--']]


def classify_alias_failure(decls, argv, plain=None, x=None):
    """finding classes of a command line whose two spellings parse differently (plain / x: what the two spellings parse to).
    x-alias-empty-name: an argument named '' registers the bare double dash AND the failure is the one the finding describes -
    the plain spelling is rejected (argparse takes -- as its separator) while the --x- spelling is accepted; two accepted
    spellings with different values, or a rejected --x- spelling, are different violations"""
    if any('--' in names for names, _ in decls) and '--' in argv and isinstance(plain, str) and not isinstance(x, str):
        return ('x-alias-empty-name',)
    return ()


def report_nameless_accepted(rep, decls, nl, p, usage):
    """the repaired add_user_argument is expected, and the real one accepted declaration nl[0] although it names the bare
    double dash: look for the command line that shows it (the plain spelling against the --x- spelling) and report it as a
    failing input; without such a command line the acceptance alone is left to W:userargs (model: ValueError)"""
    names, act = decls[nl[0]]
    flag = ACTIONS[act] != 'store'
    for argv, argv_x in ((['--'], ['--x-']) if flag else (['--', 'v'], ['--x-', 'v']),
                         (['--=v'], ['--x-=v']), (['--', 'v'], ['--x-', 'v']), (['--'], ['--x-'])):
        if not usage:
            break
        r, r2 = real_parse(p, argv), real_parse(p, argv_x)
        if r != r2:
            rep.fail('declaration %r (argument(%s, action=%r) in options.bfg) names the bare double dash and is ACCEPTED '
                     '(add_user_argument must reject an option string without a name with ValueError); command line %r '
                     'parses to %r but its --x- spelling %r parses to %r' % (
                         decls[nl[0]], ', '.join(repr(nm[2:]) for nm in names), ACTIONS[act], argv, r, argv_x, r2),
                     {'decls': decls, 'declaration': nl[0], 'argv': argv, 'argv_x': argv_x, 'plain': r, 'x': r2},
                     classes=classify_alias_failure(decls, argv, r, r2))
            return 1
    return 0


def stage_userargs(rep, rng, n):
    from bfg9000.arguments import parser as ap
    calls, impl = [], []
    found = 0
    # variant of add_user_argument under test -> model variant (the `fixed` flag of every userargs.* table entry) and
    # whether the empty-name finding applies to this run
    repaired, status = select_findings(rep)
    fixed = model_variant(rep)
    # ToggleAction._prefix
    for i in range(n // 2):
        s = rng.choice(['--', '--x-', '-', '', '--x', 'x']) + ''.join(rng.choice('abx-') for _ in range(rng.randint(0, 5)))
        pre = rng.choice(['enable-', 'disable-', 'with-', 'without-'])
        try:
            iv = ap.ToggleAction._prefix(s, pre)
        except ValueError:
            iv = None
        calls.append(('userargs.toggle_prefix', [s, pre]))
        impl.append(iv)
    directed = [(d, u) for d in DIRECTED_DECLS for u in (True, False)]
    for i in range(len(directed) + n):
        if i < len(directed):
            decls, usage = directed[i]
        else:
            decls = gen_decls(rng)
            usage = rng.random() < 0.85
        p, err = real_parser(decls, 'parse' if usage else 'help')
        mdecls = [[names, act] for names, act in decls]
        calls.append(('userargs.declare', [fixed, usage, mdecls]))
        nl = nameless(decls)
        if nl:
            rep.count('decl:nameless:' + ('rejected' if p is None and err == (nl[0], 'ValueError') else
                                          'accepted' if p is not None else 'other-error'))
        if fixed and nl and p is not None:
            # direct oracle on the implementation, repaired variant: a declaration that names the bare double dash must be
            # rejected; one that is accepted again is reported with the command line whose two spellings differ
            found += report_nameless_accepted(rep, decls, nl, p, usage)
        if p is None:
            impl.append(('declerr', err[0], err[1]))
            rep.count('decl:' + err[1])
            rep.case('d:%r' % (decls,), False)
            continue
        table = real_table(p)
        impl.append(('table', table, [(a.dest,) for a in p._actions]))
        rep.count('decl:ok')
        for j in range(len(DIRECTED_ARGV) if i < len(directed) else 4):
            argv = DIRECTED_ARGV[j] if i < len(directed) else gen_argv(rng, decls, table, p)
            r = real_parse(p, argv)
            calls.append(('userargs.parse', [fixed, usage, mdecls, argv]))
            impl.append(r)
            rep.count('parse:' + (r if isinstance(r, str) else 'ok'))
            rep.case('a:%r:%r' % (decls, argv), any(t.startswith('--') for t in argv))
            if usage:
                mask = [True for _ in argv] if i < len(directed) else [rng.random() < 0.7 for _ in argv]
                argv2 = py_respell(table, mask, argv)
                calls.append(('userargs.respell', [fixed, usage, mdecls, mask, argv]))
                impl.append(argv2)
                # direct oracle on the implementation: both spellings give the same namespace
                r2 = real_parse(p, argv2)
                if argv2 != argv:
                    rep.count('respelled')
                if r2 != r:
                    found += 1
                    rep.fail('declarations %r: %r parses to %r but the --x- spelling %r parses to %r' % (
                        decls, argv, r, argv2, r2), {'decls': decls, 'argv': argv, 'argv_x': argv2, 'plain': r, 'x': r2},
                        classes=classify_alias_failure(decls, argv, r, r2))
    keepcalls = calls

    def dec(name, raw):
        if name == 'userargs.toggle_prefix':
            return common.d_opt(d_str, raw)
        if raw[0] == 1:
            return ('declerr', raw[1], ['ValueError', 'TypeError', 'ArgumentError'][raw[2]])
        body = raw[1]
        if name == 'userargs.declare':
            tbl, seen = [], set()
            for s, dest, tr in body[0]:
                s = d_str(s)
                if s not in seen:
                    seen.add(s)
                    tbl.append((s, d_str(dest), d_bool(tr)))
            return ('table', tbl, [(d_str(a[0]),) for a in body[1]])
        if name == 'userargs.parse':
            return d_ns(body)
        if name == 'userargs.respell':
            return [d_str(x) for x in body]
        raise KeyError(name)
    raw = common.model_batch(calls)
    dis = []
    outside = 0
    for i, ((name, arg), r, iv) in enumerate(zip(calls, raw, impl)):
        mv = dec(name, r)
        if name == 'userargs.parse' and (mv == 'outside' or (isinstance(mv, tuple) and mv[0] == 'declerr')):
            outside += 1
            continue
        if mv != iv:
            dis.append((i, (name, arg), iv, mv))
    nvm, ok, detail = common.vm_crosscheck(calls, raw, limit=60)
    rep.stage('W:userargs', cases=len(calls), disagreements=len(dis), outside_fragment=outside,
              vm_compute_rechecked=nvm, vm_agrees=ok, model_variant='fixed' if fixed else 'as first written')
    if not ok:
        rep.fail('extraction glue: ' + detail, {'obligation': 'vm_compute == extracted model', 'detail': detail},
                 found_input=False)
    rep.stage('oracle:x-alias', failures=found)
    return dis, found


def stage_options_file(rep, rng, n, bi_opts):
    """the `argument` builtin through the real options.bfg machinery + configure_build's parse of extra_args"""
    from bfg9000 import build
    _setup_impl()
    d = common.scratch('c19o')
    bad = 0
    try:
        for i in range(n):
            decls = [([nm for nm in names if nm.startswith('--')], act) for names, act in gen_decls(rng)]
            decls = [(names, act) for names, act in decls if names]
            src, bld = os.path.join(d, 's%d' % i), os.path.join(d, 'b%d' % i)
            os.makedirs(src)
            os.makedirs(bld)
            with open(os.path.join(src, FN_OPTS), 'w') as f:
                for names, act in decls:
                    f.write('argument(%s, action=%r)\n' % (', '.join(repr(nm[2:]) for nm in names), ACTIONS[act]))
            p, err = real_parser(decls, 'parse')
            table = real_table(p) if p else []
            argv = gen_argv(rng, decls, table, p)
            with open(os.path.join(src, FN_BUILD), 'w') as f:
                f.write("%s('argv', %s(%s(argv).items()))\n" % (B('_rec'), B('sorted'), B('vars')))
            env = make_env(src, bld, extra_args=argv)
            _STATE['log'] = []
            cwd = os.getcwd()
            try:
                with contextlib.redirect_stderr(io.StringIO()):
                    build.configure_build(env)
                got = [(k, ('none',) if v is None else (('str', v) if isinstance(v, str) else ('bool', v)))
                       for k, v in _STATE['log'][0][3]]
            except SystemExit:
                got = 'error'
            except Exception as e:
                got = ('declerr', type(e).__name__)
            finally:
                os.chdir(cwd)
            mdecls = [[names, act] for names, act in decls]
            raw = common.model_batch([('userargs.parse', [model_variant(rep), True, mdecls, argv])])[0]
            if raw[0] == 1:
                mv = ('declerr', ['ValueError', 'TypeError', 'ArgumentError'][raw[2]])
            else:
                mv = d_ns(raw[1])
            rep.case('o:%r:%r' % (decls, argv), bool(decls))
            rep.count('optionsfile:' + (got if isinstance(got, str) else ('declerr' if isinstance(got, tuple) else 'ok')))
            if mv != 'outside' and mv != got:
                bad += 1
                rep.fail('options.bfg %r with arguments %r: script sees %r, model %r' % (decls, argv, got, mv),
                         {'obligation': 'W:options.bfg', 'decls': decls, 'argv': argv, 'impl': got, 'model': mv},
                         found_input=False)
            shutil.rmtree(src, ignore_errors=True)
            shutil.rmtree(bld, ignore_errors=True)
    finally:
        shutil.rmtree(d, ignore_errors=True)
    rep.stage('W:options.bfg', runs=n, disagreements=bad)
    return bad


def stage_persist(rep, rng, n):
    """system level: the arguments given at configure time are what a later `bfg9000 regenerate` sees"""
    bad = 0
    d = common.scratch('c19p')
    try:
        for i in range(n):
            src, bld = os.path.join(d, 'src%d' % i), os.path.join(d, 'bld%d' % i)
            os.makedirs(src)
            with open(os.path.join(src, FN_OPTS), 'w') as f:
                f.write("argument('name', default='dflt')\nargument('fast', action='enable')\n"
                        "argument('zlib', action='with')\nargument('level')\n")
            with open(os.path.join(src, FN_BUILD), 'w') as f:
                f.write("print('@@C19', sorted(vars(argv).items()))\n")
            val = rng.choice(['Bob', 'a b', "it's", '$x', 'é', '--x-name', ''])
            args = rng.choice([['--name=' + val, '--x-enable-fast'], ['--x-name=' + val, '--disable-fast', '--with-zlib'],
                               ['--x-level', val or 'q', '--x-without-zlib'] if not val.startswith('-') else ['--level=' + val]])
            env = common.impl_env()
            p1 = subprocess.run(['bfg9000', 'configure', bld, '--backend=make', '--no-resolve-packages'] + args,
                                cwd=src, env=env, capture_output=True, text=True, timeout=120)
            p2 = subprocess.run(['bfg9000', 'regenerate', bld], cwd=src, env=env, capture_output=True, text=True,
                                timeout=120)
            l1 = [l for l in p1.stdout.split('\n') if l.startswith('@@C19')]
            l2 = [l for l in p2.stdout.split('\n') if l.startswith('@@C19')]
            rep.case('persist:%r' % (args,), True)
            rep.sample({'stage': 'system:persist', 'args': args, 'configure': l1, 'regenerate': l2})
            rep.traces += 1
            if p1.returncode != 0 or p2.returncode != 0 or not l1 or l1 != l2:
                bad += 1
                rep.fail('arguments %r: configure printed %r, regenerate printed %r (exit %d/%d)' % (
                    args, l1, l2, p1.returncode, p2.returncode),
                    {'args': args, 'configure': l1, 'regenerate': l2, 'stderr': (p1.stderr + p2.stderr)[-1500:]},
                    classes=('args-not-persistent',))
            shutil.rmtree(src, ignore_errors=True)
            shutil.rmtree(bld, ignore_errors=True)
    finally:
        shutil.rmtree(d, ignore_errors=True)
    rep.stage('system:persist', runs=n, failures=bad)
    return bad


# -------------------------------------------------------------------- configure-time values across real regenerations
INSTALL_KEYS = ['prefix', 'exec_prefix', 'bindir', 'libdir', 'includedir', 'datadir', 'mandir']
PC_OPTS = "argument('name', default='dflt')\nargument('fast', action='enable')\nargument('zlib', action='with')\nargument('level')\n"
PC_BUILD = ("project('pc', version='1.0')\n"
            "print('@@C19', sorted(vars(argv).items()))\n"
            "exe = executable('prog', ['prog.c'])\n"
            "lib = library('lb', ['lb.c'])\n"
            "install(exe, lib, header_file('inc.h'), man_page('pc.1', level=1))\n"
            "install(generic_file('d.txt'), directory=Path('pkg', InstallRoot.datadir))\n")
PC_FILES = {'prog.c': 'int main(void) { return 0; }\n', 'lb.c': 'int f(void) { return 0; }\n', 'inc.h': '', 'pc.1': '',
            'd.txt': 'data\n'}
PC_STEPS = ['touch-build', 'touch-options', 'touch-toolchain', 'regenerate', 'regenerate-lazy']


def gen_persist_case(rng, rep):
    """One configure -> regeneration history: an optional toolchain file (install_dirs for 0-3 directories, environ,
    compile/link options), installation directories on the command line (0-3, in more than half of the cases overlapping
    with what the toolchain file proposes), other built-in configure options, project-defined arguments in the plain and
    the --x- spelling, and 2-3 later events (a .bfg file or the toolchain file modified followed by make; bfg9000
    regenerate by hand, plain and --lazy)."""
    def dirval(tag, k):
        if k in ('prefix', 'exec_prefix'):
            return '/opt/%s-%s' % (tag, k)
        return '/opt/%s%s/%s' % (tag, rng.choice(['', '', ' d']), k)
    tc = None
    if rng.random() < 0.8:
        tk = rng.sample(INSTALL_KEYS, rng.choice([0, 1, 1, 2, 3]))
        tc = {'install_dirs': {k: dirval('tc', k) for k in tk},
              'environ': rng.choice([{}, {'PC_VAR': 'from toolchain'}]),
              'compile_options': rng.choice([None, ['-O1', '-DTC=1'], ['-DMSG=a b']]),
              'link_options': rng.choice([None, None, ['-Wl,--as-needed']])}
    ck = rng.sample(INSTALL_KEYS, rng.choice([0, 1, 1, 2, 3]))
    if tc and tc['install_dirs'] and rng.random() < 0.6:
        k = rng.choice(sorted(tc['install_dirs']))
        if k not in ck:
            ck.append(k)
    cmd_dirs = {k: dirval('cmd', k) for k in ck}
    builtin_args = rng.choice([[], [], ['--enable-static'], ['--disable-shared', '--enable-static'], ['--disable-compdb']])
    val = rng.choice(['Bob', 'a b', "it's", '$x', 'é', ''])
    user_args = rng.choice([[], ['--name=' + val, '--x-enable-fast'], ['--x-name=' + val, '--disable-fast', '--with-zlib'],
                            ['--x-level', val or 'q', '--x-without-zlib']])
    steps = [rng.choice(PC_STEPS) for _ in range(rng.choice([2, 2, 3]))]
    if tc is None:
        steps = [s if s != 'touch-toolchain' else 'touch-build' for s in steps]
    for k in ('toolchain' if tc else 'no-toolchain', 'tc-dirs%d' % len(tc['install_dirs']) if tc else None,
              'cmd-dirs%d' % len(cmd_dirs), 'overlap' if tc and set(cmd_dirs) & set(tc['install_dirs']) else None,
              'user-args' if user_args else None, 'builtin-args' if builtin_args else None):
        if k:
            rep.count('persist:' + k)
    return {'kind': 'persist-config', 'toolchain': tc, 'cmd_dirs': cmd_dirs, 'builtin_args': builtin_args,
            'user_args': user_args, 'steps': steps}


def toolchain_text(tc):
    out = []
    if tc['install_dirs']:
        out.append('install_dirs(%s)' % ', '.join('%s=%r' % kv for kv in sorted(tc['install_dirs'].items())))
    for k, v in sorted(tc['environ'].items()):
        out.append('environ[%r] = %r' % (k, v))
    if tc['compile_options']:
        out.append("compile_options(%r, 'c')" % (tc['compile_options'],))
    if tc['link_options']:
        out.append('link_options(%r)' % (tc['link_options'],))
    return '\n'.join(out) + '\n'


def observe_config(bld, env):
    """What the build files of bld do with the configuration: the install-directory variables of the Makefile, what
    `make -n install` copies where, the flags variables, and the whole Makefile text."""
    mk = open(os.path.join(bld, 'Makefile'), encoding='utf-8', errors='replace').read()
    obs = {'dirs': {}, 'flags': {}}
    for l in mk.split('\n'):
        m = re.match(r'^(\w+) := (.*)$', l)
        if m and m.group(1) in INSTALL_KEYS:
            obs['dirs'][m.group(1)] = m.group(2)
        elif m and re.search(r'FLAGS|LIBS', m.group(1)):
            obs['flags'][m.group(1)] = m.group(2)
    p = subprocess.run(['make', '--no-print-directory', '-n', 'install', 'DESTDIR=/stage'], cwd=bld, env=env,
                       capture_output=True, text=True, timeout=120)
    obs['install'] = sorted(l for l in p.stdout.split('\n') if '/stage' in l)
    obs['install_rc'] = p.returncode
    obs['makefile'] = mk
    obs['compdb'] = os.path.exists(os.path.join(bld, 'compile_commands.json'))
    return obs


def run_persist_case(rep, case, d):
    """Returns the number of failures reported."""
    src, bld = os.path.join(d, 'src'), os.path.join(d, 'bld')
    os.makedirs(src)
    files = dict(PC_FILES)
    files[FN_OPTS], files[FN_BUILD] = PC_OPTS, PC_BUILD
    tcfile = None
    if case['toolchain']:
        tcfile = os.path.join(d, 'tc.bfg')
        with open(tcfile, 'w') as f:
            f.write(toolchain_text(case['toolchain']))
    for k, v in files.items():
        with open(os.path.join(src, k), 'w') as f:
            f.write(v)
    env = common.impl_env()
    env.pop('DESTDIR', None)
    args = ['--%s=%s' % (k.replace('_', '-'), v) for k, v in sorted(case['cmd_dirs'].items())]
    args += case['builtin_args'] + case['user_args']
    bad = 0

    def fail(what, extra):
        nonlocal bad
        bad += 1
        rep.fail('configure-time values across regenerations: %s (configure arguments %r, toolchain file %r)' % (
            what, args, toolchain_text(case['toolchain']) if tcfile else None),
            dict(case, **extra), classes=('args-not-persistent',))

    p1 = subprocess.run(['bfg9000', 'configure-into', src, bld, '--backend=make', '--no-resolve-packages'] +
                        (['--toolchain', tcfile] if tcfile else []) + args,
                        cwd=d, env=env, capture_output=True, text=True, timeout=120)
    argv1 = [l for l in p1.stdout.split('\n') if l.startswith('@@C19')]
    if p1.returncode != 0 or not argv1:
        fail('the first configure failed (exit %d)' % p1.returncode, {'output': (p1.stdout + p1.stderr)[-1500:]})
        return bad
    first = observe_config(bld, env)
    # the command line wins over the toolchain file, the toolchain file over the platform default
    for k in INSTALL_KEYS:
        want = case['cmd_dirs'].get(k) or (case['toolchain'] or {}).get('install_dirs', {}).get(k)
        got = first['dirs'].get(k)
        if want is not None and (got is None or got.replace('\\ ', ' ').replace("'", '') != want):
            fail('after the first configure the Makefile has %s := %r, expected %r' % (k, got, want), {'step': 'configure'})
    if first['install_rc'] != 0 or len(first['install']) < 5:
        fail('make -n install after the first configure: exit %d, %d copy commands' % (
            first['install_rc'], len(first['install'])), {'step': 'configure'})
        return bad
    for n, step in enumerate(case['steps']):
        if step.startswith('touch'):
            target = {'touch-build': os.path.join(src, FN_BUILD), 'touch-options': os.path.join(src, FN_OPTS),
                      'touch-toolchain': tcfile}[step]
            st = os.stat(os.path.join(bld, 'Makefile')).st_mtime_ns
            t = max(st, os.stat(target).st_mtime_ns) + 20_000_000
            os.utime(target, ns=(t, t))
            p = subprocess.run(['make', '--no-print-directory', 'Makefile'], cwd=bld, env=env, capture_output=True,
                               text=True, timeout=120)
            must_print = step != 'touch-toolchain'
        else:
            p = subprocess.run(['bfg9000', 'regenerate'] + (['--lazy'] if step == 'regenerate-lazy' else []) + [bld],
                               cwd=d, env=env, capture_output=True, text=True, timeout=120)
            must_print = step == 'regenerate'
        where = 'step %d (%s) of %r' % (n + 1, step, case['steps'])
        argv2 = [l for l in p.stdout.split('\n') if l.startswith('@@C19')]
        if p.returncode != 0:
            fail('%s failed with exit %d' % (where, p.returncode), {'step': n, 'output': (p.stdout + p.stderr)[-1500:]})
            return bad
        if (argv2 or must_print) and argv2 != argv1:
            fail('%s: the script saw argv %r, at configure time %r' % (where, argv2, argv1), {'step': n})
        now = observe_config(bld, env)
        for what in ('dirs', 'install', 'flags', 'compdb', 'makefile'):
            if now[what] != first[what]:
                if what == 'dirs':
                    det = {k: (first['dirs'].get(k), now['dirs'].get(k)) for k in INSTALL_KEYS
                           if first['dirs'].get(k) != now['dirs'].get(k)}
                    msg = 'install directories changed (configure time, now): %r' % (det,)
                elif what == 'install':
                    msg = 'make -n install copies %r, after the first configure %r' % (
                        [l for l in now['install'] if l not in first['install']][:3],
                        [l for l in first['install'] if l not in now['install']][:3])
                elif what == 'makefile':
                    a, b = first['makefile'].split('\n'), now['makefile'].split('\n')
                    msg = 'the Makefile differs from the one of the first configure: %r' % (
                        [(x, y) for x, y in zip(a, b) if x != y][:3] or (len(a), len(b)),)
                else:
                    msg = '%s changed from %r to %r' % (what, first[what], now[what])
                fail('%s: %s' % (where, msg), {'step': n, 'observation': what})
                break
    return bad


# every run starts with the full combination: a toolchain file proposing directories that the command line also gives
PC_DIRECTED = [{'kind': 'persist-config',
                'toolchain': {'install_dirs': {'prefix': '/opt/tc-prefix', 'bindir': '/opt/tc/bindir', 'mandir': '/opt/tc/mandir'},
                              'environ': {'PC_VAR': 'from toolchain'}, 'compile_options': ['-O1', '-DTC=1'],
                              'link_options': None},
                'cmd_dirs': {'prefix': '/opt/cmd-prefix', 'bindir': '/opt/cmd/bindir', 'datadir': '/opt/cmd/datadir'},
                'builtin_args': ['--enable-static'], 'user_args': ['--x-name=Bob', '--disable-fast', '--with-zlib'],
                'steps': ['touch-build', 'regenerate', 'touch-options']}]


def stage_persist_config(rep, rng, n, cases=()):
    """system level: every value given at configure time - installation directories on the command line and from the
    toolchain file, built-in options, project-defined arguments - is what the build files produced by every later
    regeneration use (make after a modified .bfg / toolchain file; bfg9000 regenerate)"""
    bad = 0
    d0 = common.scratch('c19q')
    try:
        for i in range(n):
            case = cases[i] if i < len(cases) else PC_DIRECTED[i - len(cases)] if i - len(cases) < len(PC_DIRECTED) \
                else gen_persist_case(rng, rep)
            d = os.path.join(d0, 'h%d' % i)
            os.makedirs(d)
            rep.case('persist-config:' + json.dumps(case, sort_keys=True),
                     bool(case['toolchain'] and case['toolchain']['install_dirs'] and case['cmd_dirs']))
            rep.traces += 1
            bad += run_persist_case(rep, case, d)
            shutil.rmtree(d, ignore_errors=True)
    finally:
        shutil.rmtree(d0, ignore_errors=True)
    rep.stage('system:persist-config', histories=n, failures=bad)
    return bad


# builtins that take an explicit output name: the name is also given with a directory part and - the documented form for a
# target that belongs next to the submodule's directory - with a leading ../
NAMED_OUTPUTS = [
    ('copy_file', "copy_file('{n}out.txt', 'data.txt')"),
    ('build_step', "build_step('{n}gen.txt', cmd=['touch', 'gen.txt'])"),
    ('object_file', "object_file('{n}obj', 'x.c')"),
    ('executable', "executable('{n}prog', ['x.c'])"),
    ('static_library', "static_library('{n}st', ['x.c'])"),
    ('shared_library', "shared_library('{n}sh', ['x.c'])"),
]
NAME_VARIANTS = [('nested', 'o d/'), ('parent', '../'), ('parent-nested', '../o d/')]

OUTPUT_BUILTINS = [
    ('copy_file', "copy_file('out.txt', 'data.txt')"),
    ('copy_file-noname', "copy_file(file='data.txt')"),
    ('copy_file-directory', "copy_file(file='data.txt', directory='d')"),
    ('build_step', "build_step('gen.txt', cmd=['touch', 'gen.txt'])"),
    ('build_step-list', "build_step(['g1.txt', 'g2.txt'], cmd=['touch', 'g1.txt', 'g2.txt'])[1]"),
    ('object_file', "object_file('obj', 'x.c')"),
    ('object_file-noname', "object_file(file='x.c')"),
    ('executable', "executable('prog', ['x.c'])"),
    ('static_library', "static_library('st', ['x.c'])"),
    ('shared_library', "shared_library('sh', ['x.c'])"),
]


def predicted_at_root(expr):
    """what the open finding output-not-relative:build_step predicts: the FIRST output name of a build_step is resolved
    against the build ROOT (every output of the step) instead of the submodule's build directory - `$(builddir)/<normalised name>`, or the
    containment error when the name climbs out of the root with ../"""
    import posixpath
    m = re.match(r"build_step\((\[[^\]]*\]|'[^']*')", expr)
    if not m:
        return None
    names = re.findall(r"'([^']*)'", m.group(1))
    k = re.search(r"\)\[(\d+)\]$", expr)
    norm = posixpath.normpath(names[int(k.group(1)) if k else 0])
    if norm == '..' or norm.startswith('../'):
        return "exception ValueError: too many '..': path cannot escape root"
    return '`$(builddir)/%s`' % norm


def stage_output_builtins(rep, depth=2):
    """direct oracle: every builtin that creates a built file, called inside a (nested) submodule, must place it
    under the matching build subdirectory"""
    from bfg9000 import build
    _setup_impl()
    d = common.scratch('c19b')
    bad = 0
    try:
        src, bld = os.path.join(d, 'src'), os.path.join(d, 'bld')
        chain = ['sub', 'in ner'][:depth]
        sub = os.path.join(src, *chain)
        os.makedirs(sub)
        os.makedirs(bld)
        with open(os.path.join(src, FN_BUILD), 'w') as f:
            f.write("submodule(%r)\n" % chain[0])
        if depth > 1:
            with open(os.path.join(src, chain[0], FN_BUILD), 'w') as f:
                f.write("submodule(%r)\n" % chain[1])
        open(os.path.join(sub, 'x.c'), 'w').write('int main(void) { return 0; }\n')
        open(os.path.join(sub, 'data.txt'), 'w').write('x\n')
        cases = [(name, expr, '') for name, expr in OUTPUT_BUILTINS] + \
                [('%s-%s' % (name, vn), expr.format(n=pre.replace('o d', 'o d %d' % k)), pre.replace('o d', 'o d %d' % k))
                 for k, (name, expr) in enumerate(NAMED_OUTPUTS) for vn, pre in NAME_VARIANTS]
        cases = [(n_, e_.replace('{n}', ''), p_) for n_, e_, p_ in cases]
        with open(os.path.join(sub, FN_BUILD), 'w') as f:
            for name, expr, _pre in cases:
                f.write("try:\n    _rec('outb', %r, repr(%s.path))\nexcept Exception as e:\n"
                        "    _rec('outb', %r, 'exception ' + type(e).__name__ + ': ' + str(e))\n" % (name, expr, name))
        env = make_env(src, bld)
        _STATE['log'] = []
        cwd = os.getcwd()
        try:
            build.configure_build(env)
        finally:
            os.chdir(cwd)
        seen = {}
        for r in _STATE['log']:
            if r[2] == 'outb':
                seen[r[3]] = r[4]
        import posixpath
        for name, expr, pre in cases:
            rel = posixpath.normpath('/'.join(chain + [pre, 'x'])).rsplit('/', 1)[0] if pre else '/'.join(chain)
            want = '`$(builddir)/' + (rel + '/' if rel not in ('', 'x') else '')
            got = seen.get(name, 'no record')
            rep.case('outb:%s:%d' % (name, depth), True)
            rep.count('outb:' + ('ok' if got.startswith(want) else 'elsewhere'))
            if not got.startswith(want):
                bad += 1
                rep.fail('%s inside submodule %r creates %s, not a path under %s...' % (expr, '/'.join(chain), got, want),
                         {'builtin': name, 'expr': expr, 'submodule': '/'.join(chain), 'output': got, 'expected_prefix': want},
                         # the finding (build_step only): the output is placed directly in the build directory under its name
                         classes=('output-not-relative:' + name.split('-')[0],) if got == predicted_at_root(expr) else ())
    finally:
        shutil.rmtree(d, ignore_errors=True)
    rep.stage('oracle:output-builtins', builtins=len(cases), failures=bad)
    return bad


# ------------------------------------------------------------------------------------- sibling directories, near-prefix names
# (name of a directory, a sibling whose name continues it): the second has the first as a proper string prefix, so string
# and component comparisons of the two paths differ
NAME_FAMILIES = [('app', 'apputil'), ('lib', 'lib64'), ('lib', 'libextra'), ('a', 'ab'), ('src', 'src2'), ('x.y', 'x.y.z'),
                 ('d e', 'd e2'), ('core', 'core-tests'), ('t', 't.d'), ('mod', 'mod_a')]


def rel_components(target, start):
    """the path of [target] as seen from the directory [start], component lists, by the common COMPONENT prefix"""
    k = 0
    while k < len(target) and k < len(start) and target[k] == start[k]:
        k += 1
    return ['..'] * (len(start) - k) + list(target[k:])


def predicted_within(src_comps, dir_comps, strip_ext=None):
    """The documented placement of a file inside an output directory: its path relative to the directory's parent, every
    step to a parent directory written PAR, appended to the directory."""
    rel = ['PAR' if c == '..' else c for c in rel_components(src_comps, dir_comps[:-1])]
    if strip_ext is not None:
        rel[-1] = posixpath.splitext(rel[-1])[0] + strip_ext
    return list(dir_comps) + rel


def gen_sibling_project(rng):
    """Sibling directories X, X<more> (a near-prefix family), a control directory with an unrelated name, optionally all
    below a common parent; 1-3 of them carry a build script that compiles own files and files of the siblings reached through
    ../ - as sources of an executable / a library (default intermediate directory, or intermediate_dir=), with
    object_file(directory=) and copy_file(directory=). Own files include the one at the remainder that string-stripping the
    own name from the sibling's path would leave (app/util/x.c next to ../apputil/x.c)."""
    X, Y = rng.choice(NAME_FAMILIES)
    ctl = rng.choice(['tools', 'zz', 'other'])
    pre = rng.choice([[], [], ['top'], ['top', 'mid']])
    dirs = [X, Y, ctl]
    scripted = rng.sample(dirs, rng.choice([1, 2, 2, 3]))
    if X not in scripted and rng.random() < 0.7:
        scripted[0] = X
    rest = Y[len(X):].lstrip('-_. ') or 'r'
    files = set()
    scripts = []
    for D in scripted:
        sibs = [d for d in dirs if d != D]
        shared = []
        for sdir in rng.sample(sibs, rng.choice([1, 2])):
            shared += [['..', sdir, 'x.c']] + ([['..', sdir, 'sub', 'y.c']] if rng.random() < 0.5 else [])
        own = [['main.c'], [rest, 'x.c'], ['x.c'], ['sub', 'y.c'], [Y[len(X):] or 'q', 'x.c'], ['PARENT', 'x.c']]
        own = [o for i, o in enumerate(own) if all(c not in ('', '.', '..') and '/' not in c for c in o) and o not in own[:i]]
        own = [own[0]] + rng.sample(own[1:], rng.randint(1, min(3, len(own) - 1)))
        srcs = own + shared
        rng.shuffle(srcs)
        stmts = []
        kind = rng.choice(['executable', 'executable', 'static_library', 'shared_library'])
        nm = rng.choice(['prog', 'p', X, 'o/prog'])
        idir = rng.choice([None, None, 'objs/', 'o d/i'])
        stmts.append({'what': 'link', 'kind': kind, 'name': nm, 'files': srcs, 'intermediate_dir': idir})
        for f in rng.sample(shared + own, 2):
            stmts.append({'what': 'object_file', 'file': f, 'directory': rng.choice(['od', 'o/d', X, rest])})
        for f in rng.sample(shared, 1):
            stmts.append({'what': 'copy_file', 'file': f, 'directory': rng.choice(['cp', 'c/p', rest])})
        scripts.append({'dir': D, 'stmts': stmts})
        for f in srcs:
            files.add(posixpath.normpath('/'.join(pre + [D] + f)))
    return {'pre': pre, 'dirs': dirs, 'scripts': scripts, 'files': sorted(files)}


def sibling_expectations(proj):
    """-> [(label, script dir comps, python expression, expected repr, [(source comps, output comps)])]"""
    out = []
    k = 0
    for sc in proj['scripts']:
        here = proj['pre'] + [sc['dir']]
        for st in sc['stmts']:
            k += 1
            label = 'S%d' % k

            def src_of(f):
                return posixpath.normpath('/'.join(here + f)).split('/')
            if st['what'] == 'link':
                base = {'executable': '', 'static_library': 'lib', 'shared_library': 'lib'}[st['kind']]
                ncomps = st['name'].split('/')
                idir = st['intermediate_dir'] or '/'.join(ncomps[:-1] + [base + ncomps[-1] + '.int'])
                dcomps = here + [c for c in idir.split('/') if c]
                pairs = [(src_of(f), predicted_within(src_of(f), dcomps, '.o')) for f in st['files']]
                kw = '' if st['intermediate_dir'] is None else ', intermediate_dir=%r' % st['intermediate_dir']
                expr = '[f.path for f in %s(%r, files=%r%s).creator.files]' % (
                    st['kind'], st['name'], ['/'.join(f) for f in st['files']], kw)
                want = '[' + ', '.join('`$(builddir)/%s`' % '/'.join(o) for _, o in pairs) + ']'
            else:
                dcomps = here + st['directory'].split('/')
                o = predicted_within(src_of(st['file']), dcomps, '.o' if st['what'] == 'object_file' else None)
                pairs = [(src_of(st['file']), o)]
                expr = '%s(file=%r, directory=%r).path' % (st['what'], '/'.join(st['file']), st['directory'])
                want = '`$(builddir)/%s`' % '/'.join(o)
            out.append((label, here, expr, want, pairs, st))
    return out


def run_sibling_project(rep, proj):
    from bfg9000 import build
    _setup_impl()
    d = common.scratch('c19s')
    bad = 0
    try:
        src, bld = os.path.join(d, 'src'), os.path.join(d, 'bld')
        os.makedirs(src)
        os.makedirs(bld)
        for f in proj['files']:
            os.makedirs(os.path.dirname(os.path.join(src, f)), exist_ok=True)
            open(os.path.join(src, f), 'w').write('int f_%s(void) { return 0; }\n' % re.sub(r'\W', '_', f))
        exps = sibling_expectations(proj)
        with open(os.path.join(src, FN_BUILD), 'w') as f:
            f.write("project('p')\n")
            for sc in proj['scripts']:
                f.write('submodule(%r)\n' % '/'.join(proj['pre'] + [sc['dir']]))
        for sc in proj['scripts']:
            here = proj['pre'] + [sc['dir']]
            os.makedirs(os.path.join(src, *here), exist_ok=True)
            with open(os.path.join(src, *here, FN_BUILD), 'w') as f:
                for label, h, expr, want, pairs, st in exps:
                    if h == here:
                        f.write("try:\n    _rec('outb', %r, repr(%s))\nexcept Exception as e:\n"
                                "    _rec('outb', %r, 'exception ' + type(e).__name__ + ': ' + str(e))\n" % (label, expr, label))
        env = make_env(src, bld)
        _STATE['log'] = []
        cwd = os.getcwd()
        err = None
        try:
            build.configure_build(env)
        except Exception as e:
            err = '%s: %s' % (type(e).__name__, e)
        finally:
            os.chdir(cwd)
        seen = {r[3]: r[4] for r in _STATE['log'] if r[2] == 'outb'}
        rep.case('sib:' + json.dumps(proj, sort_keys=True), True)
        if err:
            bad += 1
            rep.fail('a project of sibling directories %r does not configure: %s' % (proj['dirs'], err),
                     {'kind': 'siblings', 'project': proj, 'error': err}, classes=())
        outputs = {}
        for label, here, expr, want, pairs, st in exps:
            got = seen.get(label, 'no record')
            rep.count('siblings:' + st['what'] + (':intermediate_dir=' if st.get('intermediate_dir') else ''))
            if got != want:
                bad += 1
                rep.fail('in the script of %r (siblings %r): %s gives %s; by the documented rule (path relative to the parent of '
                         'the output directory, PAR for each step up) it is %s' % ('/'.join(here), proj['dirs'], expr, got, want),
                         {'kind': 'siblings', 'project': proj, 'label': label, 'expr': expr, 'got': got, 'want': want}, classes=())
            # distinct source files -> distinct outputs, as the implementation placed them
            for m in re.findall(r'`\$\(builddir\)/([^`]*)`', got):
                outputs.setdefault(m, []).append((label, expr))
        for o, users in outputs.items():
            if len(users) > 1 and not same_step_twice(exps, users, o):
                bad += 1
                rep.fail('two steps of different source files write the one output %r: %r' % (o, [u[1] for u in users]),
                         {'kind': 'siblings', 'project': proj, 'output': o, 'steps': users}, classes=())
    finally:
        shutil.rmtree(d, ignore_errors=True)
    return bad


def same_step_twice(exps, users, o):
    """the same source compiled into the same directory twice (object_file of a file that the link step of the script also
    compiles with the same directory) is one step, not a collision of distinct inputs"""
    srcs = set()
    for label, here, expr, want, pairs, st in exps:
        if label in [u[0] for u in users]:
            for s_, o_ in pairs:
                if '/'.join(o_) == o:
                    srcs.add(tuple(s_))
    return len(srcs) <= 1


def stage_siblings(rep, rng, n):
    bad = 0
    for _ in range(n):
        bad += run_sibling_project(rep, gen_sibling_project(rng))
    rep.stage('oracle:sibling-directories', projects=n, failures=bad)
    return bad


# ------------------------------------------------------------------------------------- entry points
def load_corpus():
    out = []
    cdir = os.path.join(common.VERIF, 'corpus', 'C19')
    if os.path.isdir(cdir):
        for fn in sorted(os.listdir(cdir)):
            if fn.endswith('.json'):
                out.append(json.load(open(os.path.join(cdir, fn))))
    return out


def report_dis(rep, stage, dis, found):
    if dis and not rep.n_with_input:
        i, call, iv, mv = dis[0]
        what = call.to_json() if isinstance(call, Tree) else call
        detail = ''
        if isinstance(iv, tuple) and isinstance(mv, tuple) and len(iv) == 3 and isinstance(iv[0], list):
            k = next((j for j, (a, b) in enumerate(zip(iv[0], mv[0])) if a != b), min(len(iv[0]), len(mv[0])))
            detail = ' first difference at record %d: impl %r, model %r; end impl %r model %r' % (
                k, iv[0][k:k + 1], mv[0][k:k + 1], iv[1], mv[1])
        rep.fail('%s - model and implementation disagree (%d cases).%s' % (stage, len(dis), detail or
                                                                           ' e.g. %r: impl %r, model %r' % (what, iv, mv)),
                 {'obligation': stage, 'input': what, 'impl': iv, 'model': mv, 'n_disagreements': len(dis)},
                 found_input=False)


def run(rep):
    rng = random.Random(rep.seed)
    thorough = rep.tier == 'thorough'
    rep.proof_stage(coqchk=thorough)
    bi_build, bi_opts = builtin_names('build'), builtin_names('options')
    corpus = load_corpus()
    n = 6000 if thorough else 350
    dis, found = stage_scope(rep, rng, n, bi_build, bi_opts, [c['tree'] for c in corpus if 'tree' in c])
    if dis and not rep.n_with_input:
        dis2, found = stage_scope(rep, rng, n * 10, bi_build, bi_opts)
    report_dis(rep, 'W:scope', dis, found)
    pdis = stage_paths(rep, rng, 20000 if thorough else 1500)
    report_dis(rep, 'W:paths', pdis, found)
    udis, ufound = stage_userargs(rep, rng, 10000 if thorough else 600)
    if udis and not ufound:
        _, ufound = stage_userargs(rep, rng, 6000)
    report_dis(rep, 'W:userargs', udis, ufound)
    stage_options_file(rep, rng, 300 if thorough else 60, bi_opts)
    stage_output_builtins(rep, 2)
    if thorough:
        stage_output_builtins(rep, 1)
    stage_siblings(rep, rng, 200 if thorough else 30)
    stage_real_configure(rep, rng, 40 if thorough else 3, bi_build)
    stage_persist(rep, rng, 8 if thorough else 1)
    stage_persist_config(rep, rng, 60 if thorough else 10)


def replay(rep, path):
    r = json.load(open(path))
    print(json.dumps(r, indent=1)[:3000])
    if 'tree' in r and r.get('failing_input_found'):
        t = Tree.from_json(r['tree'])
        d = common.scratch('c19y')
        try:
            src, bld = os.path.join(d, 's'), os.path.join(d, 'b')
            os.makedirs(src)
            os.makedirs(bld)
            write_tree(t, src)
            log, end, seen = run_inproc(t, src, bld)
            for what, classes in oracle_tree(t, log, end, src):
                rep.fail(what, {'tree': t.to_json(), 'trace': log, 'end': end}, classes=classes)
        finally:
            shutil.rmtree(d, ignore_errors=True)
        return
    if r.get('kind') == 'persist-config':
        stage_persist_config(rep, random.Random(0), 1, [r])
        return
    if r.get('kind') == 'siblings':
        if not run_sibling_project(rep, r['project']):
            print('replayed project no longer fails')
        return
    if 'argv_x' in r:
        select_findings(rep)
        p, err = real_parser([(n, a) for n, a in r['decls']], 'parse')
        if p is not None and real_parse(p, r['argv']) != real_parse(p, r['argv_x']):
            rep.fail('the plain and the --x- spelling still parse differently', r,
                     classes=classify_alias_failure([(n, a) for n, a in r['decls']], r['argv'],
                                                    real_parse(p, r['argv']), real_parse(p, r['argv_x'])))
        return
    run(rep)
