"""C20 - Windows command lines and MSBuild solutions are well-formed and stable."""
import json
import os
import random
import re
import shutil
import subprocess
from . import common, gen
from .common import d_str, d_bool, d_opt, d_list

LEVEL = 'proof'
RULE = ('quoting: every string over {a, space, tab, double quote, backslash} up to length 4 (quick) / 6 (thorough) and '
        'argument lists of up to 3 of them, plus strings drawn per character from weighted classes (plain, blank, double '
        'quote, backslash runs, cmd metacharacters, other ASCII whitespace, NUL/CR/LF (out of the domain, W tie only), '
        'non-ASCII whitespace / non-whitespace) and a corner-case corpus; non-trivial = contains a blank, quote or '
        'backslash; distinct by exact text. split vs the C runtime rules on arbitrary lines: every line over the same alphabet up to length 6 (quick) / 8 '
        '(thorough), realistic flag lines, list2cmdline output damaged at one place, random lines of 7-40 characters weighted '
        'towards quotes and backslash runs; distinct by exact text. GUID map: histories of up to 12 runs over a pool of project names (add, keep, '
        'remove, re-add, duplicate names, missing / skipped dependencies, 0..3 explicit defaults (repeated, without a project, depended upon by other steps) and the '
        'implicit ones given to the real post-rules hook msbuild_default, pre-existing and too-new '
        '.bfg_uuid files) driven through the real UuidMap/Solution/Project classes with real files; non-trivial = '
        'history with at least one removal or re-add. Writer histories (real msbuild.writer.write) and system histories (real '
        'build scripts of command / alias / copy_file steps (output = the source path, below directory=, or an explicit name; '
        'several copy steps per source; a renamed copy changing its source between runs) with dependencies, configured with '
        '--backend=msbuild and regenerated after edits; distinct GUIDs and project files, project file carries its GUID and '
        'its own Copy task, .bfg_uuid = one entry per project):the number of explicit defaults of a run is dealt out in turn over 0..3, given to one default() call or to '
        'one call each; a case = one run, distinct by its script. MSBuild text: the same words (corpus, sweep, weighted classes) plus '
        'the shapes that look already quoted or escaped (a quote at the start and/or the end, only quotes, backslash runs before a '
        'quote, percent signs, blanks only), as plain strings, strings glued to shell literals, and paths, alone through '
        'msbuild textify(quoted=True) and in lists of 0..5 through the real CommandProject (Exec Command=) and VcxProject '
        '(<AdditionalOptions> of project-wide / per-file ClCompile, ResourceCompile, Link, Lib), read back from the written XML '
        'with an XML parser, the %% doubling undone, split by the C runtime rules (three variants): word for word; and real '
        'configures with --backend=msbuild of command / build_step / executable / shared_library steps with such words as '
        'command words, compile_options, link_options and in CFLAGS / CPPFLAGS / CXXFLAGS / LDFLAGS; distinct by exact text.')
TRUSTED = ('R model Shell/Msvcrt.v of the documented Microsoft C runtime argv rules (no Windows here): cross-checked each run '
           'against CPython subprocess.list2cmdline (independent writer for the same rules) and against a line-by-line Python '
           'transliteration of the CRT parse_cmdline loop (harness/c20.py crt_parse) in the three double-double-quote variants',
           'cmd.exe: only the documented /s /c outer-quote stripping is modelled; its metacharacter processing is excluded by the property',
           'uuid.uuid4 is modelled as a fresh-id oracle (injective, disjoint from stored ids); JSON and UUID hex round trips are '
           'exercised through real files but not modelled',
           'MSBuild itself (reading the .sln) is not available; the .sln text is parsed back by the harness; for the real '
           'configure with --backend=msbuild the variable MSBUILD names harness/stubs_msbuild/msbuild, which only answers /version',
           'MSBuild text: Exec Command= and <AdditionalOptions> are taken to reach a program as Windows command-line text after '
           'the XML escaping (undone by lxml) and with %% standing for one % (what msbuild textify writes for a percent sign); '
           'MSBuild $(...) / %(...) expansion and cmd.exe metacharacters are not modelled; words with characters XML 1.0 cannot '
           'hold are left out of the project-file places; for the real configure cl / link / lib are stand-ins that print the '
           'MSVC banner')
EXPLANATION = ''

ALPHA = ['a', ' ', '\t', '"', '\\']
UNI_SPACE = ['\x85', '\xa0', '\u2003', '\u3000']
UNI_OTHER = ['\xe9', '\u20ac', '\u65e5']
CLASSES = [
    ('plain', list('abcXYZ019_-/.:='), 30), ('blank', [' ', '\t'], 12), ('dquote', ['"'], 12), ('bslash', ['\\'], 18),
    ('cmdmeta', list('&<>|^%'), 6), ('otherws', ['\x0b', '\x0c', '\x1c', '\x1f'], 3), ('outdom', ['\n', '\r', '\0'], 2),
    ('unisp', UNI_SPACE, 2), ('uniother', UNI_OTHER, 2),
]
CLASSES_DOM = [c for c in CLASSES if c[0] != 'outdom']
CORPUS = ['', 'a', ' ', '\t', '"', '\\', '\\\\', 'a\\', 'a\\\\', '\\a', 'a\\b', 'a b', 'a b\\', 'a b\\\\', 'a\\"b', 'a\\\\"b',
          '"a b"', '""', '"\\', '\\"', '\\\\"', '\\" ', ' \\', 'a"', '"a', 'C:\\Program Files\\x\\', '\\\\server\\share dir\\',
          'a&b', '<', '>', '|', 'a%b', '%PATH%', 'a%b c', '^', 'a^b c', '\x0b', 'a\x1cb', '\x85', 'a\xa0b', '\u3000', '\xe9',
          'a\n', 'a\\\n', '\\\n', '\\\\\n', '"\n', '\\"\n', '\\\n\n', 'a\\\r', '\n', 'a\\\nb', 'a\r\n', 'a\0b', '\\\0']


def nontrivial(s):
    return any(c in ' \t"\\' for c in s)


def in_domain(s):
    return not any(c in '\0\r\n' for c in s)


def us_table():
    chars = UNI_SPACE + UNI_OTHER
    us = ''.join(c for c in chars if re.match(r'\s', c))
    assert us == ''.join(UNI_SPACE)
    return us


def rand_string(rng, rep, classes):
    s = gen.arg_string(rng, rep, maxlen=12, classes=classes)
    # bias towards the interesting shapes: backslash runs before a quote / at the end
    r = rng.random()
    if r < 0.15:
        s += '\\' * rng.randint(1, 4)
    elif r < 0.3:
        i = rng.randint(0, len(s))
        s = s[:i] + '\\' * rng.randint(1, 4) + '"' + s[i:]
    return s


# ----------------------------------------------------------------------------- reference CRT parser
def crt_parse(line, dd):
    """Transliteration of the argument loop of parse_cmdline (Microsoft CRT, stdargv.c / argv_parsing.cpp),
    for the text after the program name.  dd: 0 = no double-double-quote rule, 1 = post-2008, 2 = pre-2008."""
    p = 0
    n = len(line)
    args = []
    inq = False

    def at(i):
        return line[i] if i < n else '\0'
    while True:
        while at(p) in (' ', '\t'):
            p += 1
        if at(p) == '\0':
            break
        cur = []
        while True:
            copy = True
            numslash = 0
            while at(p) == '\\':
                p += 1
                numslash += 1
            if at(p) == '"':
                if numslash % 2 == 0:
                    if dd == 1:
                        if inq and at(p + 1) == '"':
                            p += 1
                        else:
                            copy = False
                            inq = not inq
                    elif dd == 2:
                        if inq:
                            if at(p + 1) == '"':
                                p += 1
                            else:
                                copy = False
                        else:
                            copy = False
                        inq = not inq
                    else:
                        copy = False
                        inq = not inq
                numslash //= 2
            cur.append('\\' * numslash)
            if at(p) == '\0' or (not inq and at(p) in (' ', '\t')):
                break
            if copy:
                cur.append(at(p))
            p += 1
        args.append(''.join(cur))
    return args


# ----------------------------------------------------------------------------- decoding
def dec(name, r):
    if name in ('win.quote', 'win.join', 'win.cmd_wrap'):
        return d_str(r)
    if name == 'win.has_bad':
        return d_bool(r)
    if name == 'win.inner_quote_info':
        return (d_str(r[0]), d_bool(r[1]))
    if name == 'win.quote_info':
        return d_opt(lambda x: (d_str(x[0]), d_bool(x[1])), r)
    if name == 'win.tokenize':
        return [(t[0], chr(t[1]) if len(t) > 1 else None) for t in r]
    if name in ('win.split', 'msvcrt.parse'):
        return d_list(d_str, r)
    if name in ('win.cmd_s_strip', 'win.join_sargs'):
        return d_opt(d_str, r)
    if name == 'win.split_dom':
        return [d_bool(x) for x in r]
    if name == 'win.strip_tbs':
        return d_str(r)
    raise KeyError(name)


def sweep_strings(rep):
    return gen.all_strings(ALPHA, 6 if rep.tier == 'thorough' else 4)


def sweep_lists(rng, rep, strings):
    """argument lists of <= 3 sweep strings: all pairs of strings of length <= 2, and sampled longer ones"""
    short = [s for s in strings if len(s) <= 2]
    out = [[a, b] for a in short for b in short]
    k = 6000 if rep.tier == 'thorough' else 800
    for _ in range(k):
        out.append([rng.choice(strings) for _ in range(rng.randint(2, 3))])
    return out


# ----------------------------------------------------------------------------- W: windows.py <-> model
def stage_w_quote(rep, rng, strings, lists, n):
    from bfg9000.shell import windows as wshell
    from bfg9000.safe_str import jbos, shell_literal, literal
    us = us_table()
    tokname = {wshell._Token.char: 0, wshell._Token.quote: 1, wshell._Token.space: 2}
    calls, impl = [], []
    words = CORPUS + strings + [rand_string(rng, rep, CLASSES) for _ in range(n)]
    for s in words:
        rep.case('q:' + s, nontrivial(s))
        rep.count('w:in-domain' if in_domain(s) else 'w:out-of-domain')
        calls.append(('win.quote', [us, False, s])); impl.append(wshell.quote(s))
        calls.append(('win.inner_quote_info', [us, False, s])); impl.append(tuple(wshell.inner_quote_info(s)))
        calls.append(('win.has_bad', [us, s])); impl.append(bool(wshell._bad_chars.search(s)))
        if '%' in s or len(s) <= 2:
            calls.append(('win.quote', [us, True, s])); impl.append(wshell.quote(s, escape_percent=True))
            calls.append(('win.inner_quote_info', [us, True, s])); impl.append(tuple(wshell.inner_quote_info(s, True)))
        # the tokenizer / splitter on arbitrary text (also text that no writer produces)
        calls.append(('win.tokenize', [s])); impl.append([(tokname[t], v) for t, v in wshell._tokenize(s)])
        calls.append(('win.split', [s])); impl.append(wshell.split(s))
    more = [[rand_string(rng, rep, CLASSES) for _ in range(rng.randint(0, 5))] for _ in range(n // 2)]
    for args in lists + more + [[]]:
        rep.case('j:' + repr(args), any(nontrivial(a) for a in args))
        line = wshell.join(args)
        calls.append(('win.join', [us, args])); impl.append(line)
        calls.append(('win.split', [line])); impl.append(wshell.split(line))
    # quote_info on safe_str values: str, shell_literal, literal (TypeError), jbos
    def canon_qi(v, ep):
        try:
            return tuple(wshell.quote_info(v, ep))
        except TypeError:
            return None
    for _ in range(n // 2):
        ep = rng.random() < 0.3
        kind = rng.choice(['str', 'lit', 'other', 'jbos', 'jbos', 'jbos'])
        rep.count('quote_info:' + kind)
        if kind != 'jbos':
            a = rand_string(rng, None, CLASSES)
            if ep and rng.random() < 0.5:
                a += '%'
            v = {'str': a, 'lit': shell_literal(a), 'other': literal(a)}[kind]
            b = {'str': [0, a], 'lit': [1, a], 'other': [2]}[kind]
            calls.append(('win.quote_info', [us, ep, [0, b]])); impl.append(canon_qi(v, ep))
            continue
        raw = []
        for _ in range(rng.randint(2, 5)):
            k = rng.choices([0, 1, 2], [5, 4, 1])[0]
            a = rand_string(rng, None, CLASSES) + ('%' if rng.random() < 0.2 else '')
            raw.append({0: a, 1: shell_literal(a), 2: literal(a)}[k])
        j = jbos(*raw)
        bits = []
        for b in j.bits:     # the canonical bits the real jbos holds
            if isinstance(b, str):
                bits.append([0, b])
            elif isinstance(b, shell_literal):
                bits.append([1, b.string])
            else:
                bits.append([2])
        calls.append(('win.quote_info', [us, ep, [1, bits]])); impl.append(canon_qi(j, ep))
    for c in calls[:3]:
        rep.sample({'stage': 'W:windows', 'call': c[0], 'arg': c[1]})
    return common.compare_model(rep, 'W:windows', calls, impl, dec)


def stage_w_cmdwrap(rep, rng, lists):
    """ninja write_shell(can_wrap=True) with the platform family patched to windows <-> cmd_wrap (join args)."""
    from unittest import mock
    from io import StringIO
    from bfg9000.backends.ninja import syntax as nsyntax
    from bfg9000.shell import windows as wshell
    from bfg9000.shell.list import shell_list

    class _Plat:
        family = 'windows'
    calls, impl = [], []
    sample = [a for a in lists if all(in_domain(x) and '$' not in x and ':' not in x for x in a) and a][:400]
    with mock.patch.object(nsyntax, 'platform_info', lambda: _Plat):
        for args in sample:
            out = nsyntax.Writer(StringIO(), {}, shell=wshell)
            out.write_shell(shell_list(args), can_wrap=True)
            text = out.stream.getvalue()
            calls.append(('win.cmd_wrap', [wshell.join(args)]))
            impl.append(text)
    dis = common.compare_model(rep, 'W:cmd_wrap', calls, impl, dec, vm_limit=50)
    # R side of the wrapper: cmd /s /c strips exactly the outer quotes -> the joined line comes back
    strip_calls = [('win.cmd_s_strip', [t[len('cmd /s /c '):]]) for t in impl]
    raw = common.model_batch(strip_calls)
    bad = 0
    for args, r in zip(sample, raw):
        if dec('win.cmd_s_strip', r) != wshell.join(args):
            bad += 1
    rep.stage('R:cmd_s_strip', cases=len(sample), failures=bad)
    if bad:
        rep.fail('cmd /s /c wrapper: stripping the outer quotes does not give back the joined line (%d cases)' % bad,
                 {'obligation': 'R:cmd_s_strip'}, found_input=False)
    return dis


# ----------------------------------------------------------------------------- R: Msvcrt model
def stage_r_msvcrt(rep, rng, strings, lists, n):
    """(a) msvcrt_parse (list2cmdline args) == args, all three variants; (b) model == crt_parse transliteration on
    arbitrary text (incl. text with double double quotes inside quoted parts, where the variants differ)."""
    calls, expect, what = [], [], []
    arglists = [[s] for s in CORPUS + strings if in_domain(s)] + lists
    arglists += [[rand_string(rng, None, CLASSES_DOM) for _ in range(rng.randint(1, 4))] for _ in range(n)]
    for args in arglists:
        line = subprocess.list2cmdline(args)
        for dd in (0, 1, 2):
            calls.append(('msvcrt.parse', [dd, line])); expect.append(args); what.append(('list2cmdline', args, line, dd))
    texts = CORPUS + strings + [rand_string(rng, None, CLASSES_DOM) for _ in range(n)]
    differ = 0
    for t in texts:
        if '\0' in t:
            continue
        r = [crt_parse(t, dd) for dd in (0, 1, 2)]
        if r[0] != r[1] or r[1] != r[2]:
            differ += 1
        for dd in (0, 1, 2):
            calls.append(('msvcrt.parse', [dd, t])); expect.append(r[dd]); what.append(('crt_parse', None, t, dd))
    raw = common.model_batch(calls)
    bad = 0
    for (name, arg), r, e, w in zip(calls, raw, expect, what):
        mv = dec(name, r)
        if mv != e:
            bad += 1
            if bad <= 3:
                rep.fail('R:msvcrt - the Msvcrt model disagrees with %s on %r (variant %d): model %r, expected %r' % (
                    w[0], w[2], w[3], mv, e), {'obligation': 'R:msvcrt', 'line': w[2], 'variant': w[3], 'model': mv,
                                               'expected': e, 'via': w[0]}, found_input=False)
    n_chk, ok, detail = common.vm_crosscheck(calls, raw, limit=100)
    rep.stage('R:msvcrt', cases=len(calls), list2cmdline_lists=len(arglists), raw_texts=len(texts),
              texts_where_variants_differ=differ, disagreements=bad, vm_compute_rechecked=n_chk, vm_agrees=ok)
    if not ok:
        rep.fail('extraction glue: ' + detail, {'obligation': 'vm_compute == extracted model', 'detail': detail}, found_input=False)


# ----------------------------------------------------------------------------- split vs the C runtime on arbitrary lines
# lines bfg9000 did not write but does split: flag variables, command strings of build scripts, pkg-config output
LINES = ['"C:\\Program Files"\\LLVM\\bin\\clang-cl.exe /nologo', '/I"C:\\my dir\\inc" /DNAME=\\"v 1\\" /W4', '-I"a b"c -L"d"\\e',
         '"a b"=v', 'x"a b"', '"a b"x"c d"', '/DX="c\td"', 'a\\\\"b c" d', 'a\\\\\\"b c d', '"" a ""', '"a""b"', '"a"""', '""""',
         '"a\\""b"', '"a\\\\""b"', '"unterminated a b', 'a "', 'a\\', '"a b\\', 'C:\\dir\\', '"C:\\dir\\"', '"C:\\dir\\\\"',
         '\\\\server\\share\\ x', ' \t a \t b \t ', 'a\tb', '"a\tb"', '\\"a b\\"', '\\\\\\"', '"\\\\\\" "', 'a"b c"d e',
         '-Wl,-rpath,"$ORIGIN/../my lib"', '/LIBPATH:"C:\\Program Files (x86)\\k\\lib"\\um\\x64 kernel32.lib']


def split_dom_py(line):
    """The guard WinSplit.split_dom in Python: (in domain, no final backslash, the doubled-quote rule never fires)."""
    inq, n, nodd = False, 0, True
    for i, c in enumerate(line):
        if c == '\\':
            n += 1
            continue
        if c == '"' and n % 2 == 0:
            if inq and line[i + 1:i + 2] == '"':
                nodd = False
                break
            inq = not inq
        n = 0
    tail = not line.endswith('\\')
    return (tail and nodd, tail, nodd)


def rand_line(rng):
    r = rng.random()
    if r < 0.25:      # a line some writer produced (list2cmdline), damaged at one place
        args = [rand_string(rng, None, CLASSES_DOM) for _ in range(rng.randint(1, 4))]
        t = subprocess.list2cmdline(args)
        if t and rng.random() < 0.7:
            i = rng.randrange(len(t))
            t = rng.choice([t[:i] + t[i + 1:], t[:i] + rng.choice('"\\ \ta') + t[i:], t[:i] + t[i] + t[i:]])
        return t
    if r < 0.4:       # realistic lines, glued
        return rng.choice([' ', '\t', '', '  ']).join(rng.choice(LINES) for _ in range(rng.randint(1, 3)))
    k = rng.randint(7, 40)
    w = rng.choice([(30, 15, 25, 25, 5), (10, 10, 40, 35, 5), (50, 20, 10, 15, 5)])
    out = []
    for _ in range(k):
        cls = rng.choices(['plain', 'blank', 'dq', 'bs', 'other'], w)[0]
        out.append({'plain': rng.choice('abXY01_-/.:='), 'blank': rng.choice(' \t'), 'dq': '"',
                    'bs': '\\' * rng.choice([1, 1, 2, 3, 4]), 'other': rng.choice('&<>|^%\x0b\xa0\xe9\u3000')}[cls])
    return ''.join(out)


def stage_split_vs_crt(rep, rng, n):
    """windows.split against the C runtime loop (crt_parse, three variants) on lines nobody at bfg9000 wrote.
    Inside the guard split_dom (theorem C20_split_is_crt) the real windows.split, the model and crt_parse must agree
    on every line; outside, the deviations are counted per class.  Returns the W disagreements (model vs real code)."""
    from bfg9000.shell import windows as wshell
    from bfg9000.safe_str import jbos, shell_literal
    us = us_table()
    maxlen = 8 if rep.tier == 'thorough' else 6
    sweep = gen.all_strings(ALPHA, maxlen)
    longer = [rand_line(rng) for _ in range(n * 5)]
    lines = LINES + [c for c in CORPUS if '\0' not in c] + longer + sweep
    calls, impl = [], []
    bad = ties = 0
    stat = {'in-guard': 0, 'dev:final-backslash-run': 0, 'dev:doubled-quote-in-quotes': 0, 'dev:both': 0,
            'outside-guard-yet-all-readers-agree': 0, 'outside-guard:split==crt(line minus final backslashes)': 0}
    # what the real join writes for arguments made of several pieces (jbos) <-> join_sargs; the line lies in the guard
    LIT = 'ABCxyz019=:,./-+_'
    outside = 0
    for _ in range(max(60, n // 2)):
        args, enc_args = [], []
        for _a in range(rng.randint(1, 3)):
            pieces = []
            for _p in range(rng.randint(1, 4)):
                if rng.random() < 0.5:
                    pieces.append(shell_literal(''.join(rng.choice(LIT) for _c in range(rng.randint(1, 4)))))
                else:
                    t = rand_string(rng, None, CLASSES_DOM)
                    pieces.append(t if in_domain(t) else 'p q')
            j = jbos(*pieces)
            args.append(j)
            enc_args.append([1, [[0, b] if isinstance(b, str) else [1, b.string] for b in j.bits]])
        line = wshell.join(args)
        calls.append(('win.join_sargs', [us, enc_args])); impl.append(line)
        calls.append(('win.split_dom', [line])); impl.append(list(split_dom_py(line)))
        if not split_dom_py(line)[0]:
            outside += 1
    for line in lines:
        real = wshell.split(line)
        crt = [crt_parse(line, dd) for dd in (0, 1, 2)]
        dom, tail, nodd = split_dom_py(line)
        rep.case('l:' + line, nontrivial(line))
        calls.append(('win.split', [line])); impl.append(real)
        calls.append(('win.split_dom', [line])); impl.append([dom, tail, nodd])
        if len(line) <= 6 or len(line) > maxlen:       # the R model itself (the sweep to length 6 and the longer lines)
            for dd in (0, 1, 2):
                calls.append(('msvcrt.parse', [dd, line])); impl.append(crt[dd])
        # the theorems, instantiated on the real code: per variant under its own guard
        wrong = [dd for dd in (0, 1, 2) if tail and (nodd or dd == 0) and real != crt[dd]]
        if wrong:
            bad += 1
            if bad <= 10:
                rep.fail('the line %r is split into %r by windows.split, the Microsoft C runtime rules (variant %d) give %r' % (
                    line, real, wrong[0], crt[wrong[0]]),
                    {'line': line, 'split': real, 'crt': {str(dd): crt[dd] for dd in (0, 1, 2)}, 'in_guard': [dom, tail, nodd],
                     'replay_hint': 'from bfg9000.shell import windows as w; w.split(LINE)'}, classes=())
        if dom:
            stat['in-guard'] += 1
            continue
        stat['dev:both' if not tail and not nodd else 'dev:final-backslash-run' if not tail else 'dev:doubled-quote-in-quotes'] += 1
        if all(real == c for c in crt):
            stat['outside-guard-yet-all-readers-agree'] += 1
        # C20_split_is_crt_stripped, no guard at all
        if real == crt_parse(line.rstrip('\\'), 0):
            stat['outside-guard:split==crt(line minus final backslashes)'] += 1
        else:
            ties += 1
    dis = common.compare_model(rep, 'W:split/split_dom/join_sargs + R:msvcrt on arbitrary lines', calls, impl, dec, vm_limit=260)
    rep.stage('R/W:split-vs-crt on arbitrary lines', lines=len(lines), swept_to_length=maxlen, longer_random_lines=len(longer),
              failures_inside_guard=bad, join_images_outside_guard=outside, **stat)
    for k, v in stat.items():
        rep.count('split-vs-crt:' + k, v)
    if stat['outside-guard-yet-all-readers-agree'] and not bad:
        rep.fail('%d lines outside split_dom are read alike by windows.split and all variants of the C runtime rules (theorem '
                 'C20_split_dom_exact says every such line deviates)' % stat['outside-guard-yet-all-readers-agree'],
                 {'obligation': 'W:split_dom exact on the real code'}, found_input=False)
    if ties and not bad:
        rep.fail('windows.split no longer reads a line as the C runtime reads the line without its final backslash run '
                 '(theorem C20_split_is_crt_stripped, %d lines)' % ties, {'obligation': 'W:split == crt(strip_tbs line)'},
                 found_input=False)
    return dis, bad


# ----------------------------------------------------------------------------- oracle on the implementation
def classify_quote_failure(args):
    return ()


def stage_oracle_quote(rep, rng, strings, lists, n):
    """The property itself on the real code, without the Coq model: join -> CRT rules (all variants) -> args;
    split (join args) == args."""
    from bfg9000.shell import windows as wshell
    bad = 0
    cases = [[s] for s in CORPUS + strings] + lists
    cases += [[rand_string(rng, rep, CLASSES_DOM) for _ in range(rng.randint(0, 5))] for _ in range(n)]
    done = 0
    for args in cases:
        if not all(in_domain(a) for a in args):
            continue
        done += 1
        line = wshell.join(args)
        rep.case('o:' + repr(args), any(nontrivial(a) for a in args))
        got = {('crt', dd): crt_parse(line, dd) for dd in (0, 1, 2)}
        got['split'] = wshell.split(line)
        for k, v in got.items():
            if v != args:
                bad += 1
                if bad > 25:        # enough replay files; keep counting
                    break
                rep.fail('arguments %r are written as %r, which %s reads back as %r' % (args, line, k, v),
                         {'args': args, 'written': line, 'reader': str(k), 'delivered': v,
                          'replay_hint': 'from bfg9000.shell import windows as w; w.join(ARGS); w.split(_)'},
                         classes=classify_quote_failure(args))
                break
    # arguments made of several pieces (plain strings, quoted piece by piece, next to shell literals written as they
    # are): the quoted regions then sit in the MIDDLE of an argument - "a b"=v, -I"C:\\my dir\\"x - and the argument
    # every reader must deliver is the concatenation of the pieces
    from bfg9000.safe_str import jbos, shell_literal
    LIT = 'ABCxyz019=:,./-+_'
    jdone = jbad = 0
    for _ in range(max(40, n // 2)):
        args, want = [], []
        for _a in range(rng.randint(1, 3)):
            pieces, text = [], ''
            for _p in range(rng.randint(1, 4)):
                if rng.random() < 0.5:
                    t = ''.join(rng.choice(LIT) for _c in range(rng.randint(1, 4)))
                    pieces.append(shell_literal(t))
                else:
                    t = rand_string(rng, None, CLASSES_DOM)
                    if not in_domain(t):
                        t = 'p q'
                    pieces.append(t)
                text += t
            args.append(jbos(*pieces) if len(pieces) > 1 else pieces[0])
            want.append(text)
        if not all(in_domain(t) for t in want) or any(t == '' for t in want):
            continue
        jdone += 1
        line = wshell.join(args)
        rep.case('oj:' + repr(want) + line, True)
        got = {('crt', dd): crt_parse(line, dd) for dd in (0, 1, 2)}
        got['split'] = wshell.split(line)
        for k, v in got.items():
            if v != want:
                jbad += 1
                if jbad <= 10:
                    rep.fail('arguments %r (built from several pieces) are written as %r, which %s reads back as %r' % (want, line, k, v),
                             {'args': want, 'written': line, 'reader': str(k), 'delivered': v,
                              'pieces': [[('lit' if isinstance(x, shell_literal) else 'str', getattr(x, 'string', x)) for x in
                                          (a.bits if isinstance(a, jbos) else [a])] for a in args]},
                             classes=classify_quote_failure(want))
                break
    rep.stage('oracle:join->crt/split', cases=done, failures=bad, multi_piece_cases=jdone, multi_piece_failures=jbad)
    return bad + jbad


# ----------------------------------------------------------------------------- MSBuild text: every place textify(quoted=True) is reached
# Exec Command= of command()/build_step() projects and <AdditionalOptions> of .vcxproj files (project-wide and per-file
# ClCompile, ResourceCompile, Link, Lib) are Windows command-line text: the words written there must come back, word for
# word, under the C runtime rules after the XML escaping (undone by an XML parser) and the %% doubling are undone.
MS_PLACES = ['exec-command', 'cl-common', 'cl-file', 'rc-file', 'link', 'lib']
MS_SUFFIX = ' %(AdditionalOptions)'
MS_LIT = 'ABCxyz019=:,./-+_'
MS_PATHCHARS = 'ab1_ %&'


def xml_ok(s):
    """characters an XML 1.0 document can hold (lxml refuses the others): such words cannot be written at all"""
    return all(c == '\t' or (' ' <= c <= '\ud7ff') or ('\ue000' <= c <= '\ufffd') or c >= '\U00010000' for c in s)


def adv_word(rng, rep=None):
    """The word generator of the windows.join round trip (rand_string over the in-domain classes), dressed in the shapes
    that look 'already quoted' or 'already escaped': a quote at the start and/or the end, only quotes, backslash runs in
    front of a quote, percent signs, blanks only."""
    s = rand_string(rng, rep, CLASSES_DOM)
    r = rng.random()
    if r < 0.2:
        s = '"' + s + '"'
    elif r < 0.28:
        s = '"' + s
    elif r < 0.36:
        s = s + '"'
    elif r < 0.42:
        s = '"' * rng.randint(1, 4)
    elif r < 0.5:
        s = '\\' * rng.randint(0, 3) + '"' + s + '\\' * rng.randint(0, 3) + '"'
    elif r < 0.58:
        i = rng.randint(0, len(s))
        s = s[:i] + '%' * rng.randint(1, 3) + s[i:]
    elif r < 0.62:
        s = rng.choice(' \t') * rng.randint(1, 3)
    elif r < 0.68:
        s = '"' + s.replace('"', '') + '"' + rng.choice(['', ' ', 'x', '"b"'])
    return s


def ms_spec(rng, words):
    """A word of an option list / command: mostly a plain string, sometimes a string glued to shell literals (a jbos,
    every string piece quoted on its own) or a path.  -> JSON-able spec"""
    r = rng.random()
    w = rng.choice(words)
    if r < 0.8:
        return ['str', w]
    if r < 0.93:
        pieces = []
        for _ in range(rng.randint(2, 4)):
            if rng.random() < 0.5:
                pieces.append(['lit', ''.join(rng.choice(MS_LIT) for _c in range(rng.randint(1, 4)))])
            else:
                pieces.append(['str', rng.choice(words)])
        return ['jbos', pieces]
    comps = []
    for _ in range(rng.randint(1, 3)):
        c = ''.join(rng.choice(MS_PATHCHARS) for _c in range(rng.randint(1, 5)))
        comps.append(c if c.strip(' ') == c and c else 'd' + c.strip(' ') + 'e')
    return ['path', rng.choice(['srcdir', 'absolute']), comps]


def ms_build(spec):
    """spec -> (the object given to bfg9000, the argument text every reader must deliver)"""
    from bfg9000.safe_str import jbos, shell_literal
    from bfg9000.path import Path, Root
    if spec[0] == 'str':
        return spec[1], spec[1]
    if spec[0] == 'jbos':
        return (jbos(*[shell_literal(t) if k == 'lit' else t for k, t in spec[1]]), ''.join(t for _, t in spec[1]))
    if spec[1] == 'srcdir':
        return Path('/'.join(spec[2]), Root.srcdir), '$(SourceDir)' + '\\'.join(spec[2])
    return Path('/' + '/'.join(spec[2]), Root.absolute), '\\' + '\\'.join(spec[2])


def ms_spec_ok(spec):
    _, want = ms_build(spec)
    return in_domain(want) and xml_ok(want)


def ms_render(lists):
    """lists: {place: [spec]} -> {place: the text the REAL msbuild syntax classes write there}, read back from the XML they
    serialise (CommandProject.convert_command / task / write, VcxProject.write)"""
    import io
    import types
    import uuid
    from lxml import etree
    from bfg9000.backends.msbuild import syntax as ms
    from bfg9000.file_types import SourceFile, Executable, StaticLibrary
    from bfg9000.path import Path, Root
    env = types.SimpleNamespace(getvar=lambda k, dflt=None: dflt, srcdir=Path('/src dir', Root.absolute))
    objs = {k: [ms_build(s)[0] for s in v] for k, v in lists.items()}
    out = {}
    if 'exec-command' in lists:
        p = ms.CommandProject(env, 'step', commands=[ms.CommandProject.task(
            'Exec', Command=ms.CommandProject.convert_command(objs['exec-command']), WorkingDirectory='$(OutDir)')])
        p.uuid = uuid.UUID(int=2)
        b = io.BytesIO()
        p.write(b)
        out['exec-command'] = etree.fromstring(b.getvalue()).find('.//{*}Exec').get('Command')
    if any(k != 'exec-command' for k in lists):
        lib = 'lib' in lists
        files = [{'name': SourceFile(Path('main.c', Root.srcdir), 'c'), 'options': {'extra': objs.get('cl-file')}},
                 {'name': SourceFile(Path('res.rc', Root.srcdir), 'rc'), 'options': {'extra': objs.get('rc-file')}}]
        p = ms.VcxProject(env, 'prog', mode='StaticLibrary' if lib else 'Application',
                          output_file=(StaticLibrary(Path('prog.lib'), 'coff', 'c') if lib else
                                       Executable(Path('prog.exe'), 'coff', 'c')),
                          files=files, compile_options={'extra': objs.get('cl-common')},
                          link_options={'extra': objs.get('lib' if lib else 'link')})
        p.uuid = uuid.UUID(int=1)
        b = io.BytesIO()
        p.write(b)
        root = etree.fromstring(b.getvalue())
        where = {'cl-common': './{*}ItemDefinitionGroup/{*}ClCompile', 'link': './{*}ItemDefinitionGroup/{*}Link',
                 'lib': './{*}ItemDefinitionGroup/{*}Lib', 'cl-file': './{*}ItemGroup/{*}ClCompile',
                 'rc-file': './{*}ItemGroup/{*}ResourceCompile'}
        for k in lists:
            if k == 'exec-command':
                continue
            e = root.find(where[k] + '/{*}AdditionalOptions')
            out[k] = None if e is None else (e.text or '')
    return out


def ms_read(place, text, n_words):
    """the written text -> {reader: words}; AdditionalOptions end in the inherited %(AdditionalOptions)"""
    if place != 'exec-command':
        if text is None:
            return {'xml': [] if n_words == 0 else None}
        if not text.endswith(MS_SUFFIX.strip() if n_words == 0 else MS_SUFFIX):
            return {'xml': None}
        text = text[:-len(MS_SUFFIX)] if n_words else ''
    line = text.replace('%%', '%')
    return {'crt%d' % dd: crt_parse(line, dd) for dd in (0, 1, 2)}


def ms_check(lists):
    """-> [(place, specs, want, text, reader, got)] for every place whose words do not come back"""
    bad = []
    texts = ms_render(lists)
    for place, specs in lists.items():
        want = [ms_build(s)[1] for s in specs]
        for reader, got in ms_read(place, texts[place], len(specs)).items():
            if got != want:
                bad.append((place, specs, want, texts[place], reader, got))
                break
    return bad


def ms_fail(rep, place, specs, want, text, reader, got, via='the real msbuild syntax classes'):
    rep.fail('msbuild %s: the words %r are written as %r (%s), which %s reads back as %r' % (
        place, want, text, via, reader, got),
        {'msbuild_words': {place: specs}, 'want': want, 'written': text, 'reader': reader, 'delivered': got,
         'replay_hint': 'from bfg9000.backends.msbuild.syntax import textify; " ".join(textify(w, quoted=True) for w in WORDS)'},
        classes=())


def stage_msbuild_text(rep, rng, strings, n, budget=1):
    """(1) textify(word, quoted=True) on its own: one word in, the C runtime rules give that one word back; tied to the
    model of windows quote with escape_percent (W:msbuild.textify), textify(word) unquoted is the word.  (2) word lists
    through the real CommandProject / VcxProject classes in every place that is written with quoted=True."""
    from bfg9000.backends.msbuild import syntax as ms
    us = us_table()
    words = list(dict.fromkeys(CORPUS + strings + [adv_word(rng, rep) for _ in range(n * budget)]))
    calls, impl = [], []
    bad = 0
    tie_plain = 0
    for w in words:
        t = ms.textify(w, quoted=True)
        calls.append(('win.quote', [us, True, w])); impl.append(t)
        if ms.textify(w) != w or ms.textify(w, quoted=False) != w:
            tie_plain += 1
        if not in_domain(w):
            continue
        rep.case('mt:' + w, nontrivial(w))
        if len(w) >= 2 and w[0] == '"' == w[-1]:
            rep.count('msbuild:word-in-quotes')
        if '%' in w:
            rep.count('msbuild:word-with-percent')
        line = t.replace('%%', '%')
        for dd in (0, 1, 2):
            got = crt_parse(line, dd)
            if got != [w]:
                bad += 1
                if bad <= 4:
                    rep.fail('msbuild textify(%r, quoted=True) gives %r, which the C runtime rules (variant %d) read as %r' % (
                        w, t, dd, got), {'msbuild_words': {'textify': [['str', w]]}, 'want': [w], 'written': t,
                                         'reader': 'crt%d' % dd, 'delivered': got}, classes=())
                break
    dis = common.compare_model(rep, 'W:msbuild.textify', calls, impl, dec, vm_limit=60)
    if tie_plain:
        dis = dis + [(0, ('msbuild.textify-unquoted', ['a string is written as it is']), tie_plain, 0)]
    # through the real classes: every word of the pool in every place, in lists of 1..5 words
    pool = [w for w in words if in_domain(w) and xml_ok(w)]
    lbad = nl = 0
    for place in MS_PLACES:
        order = list(pool)
        rng.shuffle(order)
        i = 0
        pbad = 0
        while i < len(order):
            k = rng.randint(1, 5)
            chunk = order[i:i + k]
            i += k
            specs = [['str', w] if rng.random() < 0.85 else ms_spec(rng, chunk) for w in chunk]
            specs = [s for s in specs if ms_spec_ok(s)]
            if rng.random() < 0.02:
                specs = []
            nl += 1
            rep.count('msbuild:' + place)
            for s in specs:
                if s[0] != 'str':
                    rep.count('msbuild:word-' + s[0])
            for f in ms_check({place: specs}):
                lbad += 1
                pbad += 1
                if pbad > 2:
                    continue
                # the shortest failing list: a single word of it, if one fails alone
                for s in specs:
                    one = ms_check({place: [s]})
                    if one:
                        f = one[0]
                        break
                ms_fail(rep, *f)
    rep.stage('oracle:msbuild textify/Exec/AdditionalOptions -> crt', words=len(words), single_word_failures=bad,
              lists_through_real_classes=nl, list_failures=lbad)
    return dis, bad + lbad


MS_SYS_TOOLS = ('cl', 'link', 'lib')


def ms_sys_word(rng, pool):
    """a word for the real configure: not empty, and not read as an option bfg9000 itself understands (/I /D /W... are
    moved to other elements): a leading / or - is kept only behind an option name bfg9000 passes through"""
    w = rng.choice(pool)
    if w == '':
        w = '""'
    if w[0] in '/-':
        w = rng.choice(['/FI', '/Zc:', '"', 'a', '%']) + w
    return w


def gen_ms_sys(rng, pool):
    def words(k=6):
        return [ms_sys_word(rng, pool) for _ in range(rng.randint(1, k))]
    return {'command': words(8), 'build_step': words(8), 'CFLAGS': words(4), 'CPPFLAGS': words(4), 'CXXFLAGS': words(4),
            'LDFLAGS': words(4), 'c_compile': words(), 'c_link': words(), 'cxx_compile': words(), 'cxx_link': words()}


def ms_sys_script(c):
    return ("project('sol', '1.0')\n"
            "command('c0', cmd=%r)\n"
            "build_step('out.txt', cmd=%r)\n"
            "executable('prog', files=['main.c'], compile_options=%r, link_options=%r)\n"
            "shared_library('sh', files=['s.cpp'], compile_options=%r, link_options=%r)\n" % (
                c['command'], c['build_step'], c['c_compile'], c['c_link'], c['cxx_compile'], c['cxx_link']))


def ms_sys_case(c):
    """One real `bfg9000 configure-into --backend=msbuild` (CC=CXX=cl: stand-ins that only print the MSVC banner) of a
    script with command / build_step steps, a C program and a C++ library, flag variables in the environment (split by
    the host shell rules at configure time).  -> (error or None, [(place, want, text, reader, got)])"""
    import shlex
    from lxml import etree
    from . import project
    d = common.scratch('c20ms')
    try:
        bindir, src, build = os.path.join(d, 'bin'), os.path.join(d, 'src'), os.path.join(d, 'build')
        os.makedirs(bindir)
        for t in MS_SYS_TOOLS:
            with open(os.path.join(bindir, t), 'w') as f:
                f.write('#!/bin/sh\necho "Microsoft (R) C/C++ Optimizing Compiler Version 19.29.30133 for x86"\n')
            os.chmod(os.path.join(bindir, t), 0o755)
        project.write_tree(src, {'build.bfg': ms_sys_script(c), 'main.c': 'int main(void) { return 0; }\n', 's.cpp': '\n'})
        env = {'MSBUILD': MSBUILD_STUB, 'CC': 'cl', 'CXX': 'cl', 'PATH': bindir + ':' + common.impl_env()['PATH']}
        for k in ('CFLAGS', 'CPPFLAGS', 'CXXFLAGS', 'LDFLAGS'):
            env[k] = ' '.join(shlex.quote(w) for w in c[k])
        rc, out = project.configure(src, build, backend='msbuild', extra_env=env)
        if rc != 0:
            return 'bfg9000 configure exits %d: %s' % (rc, out[-600:]), []

        def root(rel):
            return etree.parse(os.path.join(build, rel)).getroot()
        obs = []
        for step, key in (('c0/c0.proj', 'command'), ('out.txt/out.txt.proj', 'build_step')):
            obs.append(('Exec Command= of ' + step, 'exec-command', c[key], root(step).find('.//{*}Exec').get('Command')))
        for proj, lang, flags in (('prog/prog.vcxproj', 'c', 'CFLAGS'), ('libsh/libsh.vcxproj', 'cxx', 'CXXFLAGS')):
            r = root(proj)

            def text(p):
                e = r.find(p + '/{*}AdditionalOptions')
                return None if e is None else (e.text or '')
            obs.append(('ClCompile AdditionalOptions of ' + proj, 'cl-common', c['CPPFLAGS'] + c[flags],
                        text('./{*}ItemDefinitionGroup/{*}ClCompile')))
            obs.append(('per-file ClCompile AdditionalOptions of ' + proj, 'cl-file', c[lang + '_compile'],
                        text('./{*}ItemGroup/{*}ClCompile')))
            obs.append(('Link AdditionalOptions of ' + proj, 'link', c['LDFLAGS'] + c[lang + '_link'],
                        text('./{*}ItemDefinitionGroup/{*}Link')))
        bad = []
        for label, place, want, t in obs:
            for reader, got in ms_read(place, t, len(want)).items():
                if got != want:
                    bad.append((label, want, t, reader, got))
                    break
        return None, bad
    finally:
        shutil.rmtree(d, ignore_errors=True)


def stage_msbuild_sys(rep, rng, strings, n_cases):
    import concurrent.futures
    pool = [w for w in CORPUS + strings + [adv_word(rng) for _ in range(300)] if in_domain(w) and xml_ok(w)]
    # every other configure draws mostly from the words whose ends matter to a quoting rule: a quote or a backslash at
    # the start or the end, a percent sign or a blank anywhere
    edgy = [w for w in pool if w[:1] in ('"', '\\') or w[-1:] in ('"', '\\') or '%' in w or ' ' in w or '\t' in w]
    cases = [gen_ms_sys(rng, pool if i % 2 == 0 else edgy + rng.sample(pool, 40)) for i in range(n_cases)]
    with concurrent.futures.ThreadPoolExecutor(max_workers=8) as ex:
        outs = list(ex.map(ms_sys_case, cases))
    bad = 0
    for c, (err, fails) in zip(cases, outs):
        rep.case('msys:%r' % (c,), True)
        rep.count('msbuild-sys:words', sum(len(v) for v in c.values()))
        if err:
            bad += 1
            rep.fail('msbuild backend, real configure of command / build_step / executable / shared_library steps: ' + err,
                     {'msbuild_sys': c, 'script': ms_sys_script(c)}, classes=())
            continue
        for label, want, t, reader, got in fails[:2]:
            bad += 1
            if bad <= 6:
                rep.fail('msbuild backend, real configure: %s: the words %r are written as %r, which %s reads back as %r' % (
                    label, want, t, reader, got), {'msbuild_sys': c, 'script': ms_sys_script(c), 'place': label, 'want': want,
                                                   'written': t, 'reader': reader, 'delivered': got}, classes=())
    rep.stage('oracle:msbuild configure -> Exec/AdditionalOptions -> crt', configures=n_cases, failures=bad)
    return bad


# ----------------------------------------------------------------------------- UuidMap / Solution
NAME_POOL =['prog', 'libfoo', 'copy_file_tasks/data.txt', 'sub/dir/tool', 'my project', '\xe9日', 'all', 'test',
             'a', 'b', 'c', 'key', 'x.y', 'UPPER', 'a&b', '{guid}']
SLN_PROJECT = re.compile(r'^Project\("\{([0-9A-F-]+)\}"\) = "(.*)", "(.*)", "\{([0-9A-F-]+)\}"$')
SLN_DEP = re.compile(r'^\t\t\{([0-9A-F-]+)\} = \{([0-9A-F-]+)\}$')


def gen_history(rng, rep):
    pool = rng.sample(NAME_POOL, rng.randint(3, 8))
    present = set(rng.sample(pool, rng.randint(1, len(pool))))
    ever = set(present)
    flags = set()
    runs = []
    for i in range(rng.randint(2, 12)):
        if i > 0:
            for name in pool:
                r = rng.random()
                if name in present and r < 0.2:
                    present.discard(name); flags.add('remove')
                elif name not in present and r < 0.3:
                    flags.add('re-add' if name in ever else 'add')
                    present.add(name); ever.add(name)
        order = [nm for nm in pool if nm in present]
        if rng.random() < 0.4:
            rng.shuffle(order)
        specs = []
        for name in order:
            key, pname = 'out/' + name, name
            r = rng.random()
            if r < 0.04 and specs:
                pname = specs[-1][1]; flags.add('dup-name')
            elif r < 0.07 and specs:
                key = specs[-1][0]; flags.add('dup-key')
            deps = [k for k, _, _ in specs if rng.random() < 0.3]
            if rng.random() < 0.3:
                deps.insert(rng.randint(0, len(deps)), None)
            if rng.random() < 0.03:
                deps.append('out/ghost'); flags.add('unknown-dep')
            specs.append((key, pname, deps))
        # builtins/default.py: the explicit defaults (0..3: default(a, b), several default() calls, also one output named
        # twice or an output without a project) and the implicit ones (outputs that test() did not take out again)
        keys = [k for k, _, _ in specs]
        ne = rng.choice([0, 0, 1, 1, 2, 2, 3])
        explicit = [rng.choice(keys + keys + ['out/ghost']) for _ in range(ne)]
        if len(set(explicit)) < len(explicit) and rng.random() < 0.7:
            explicit = rng.sample(keys, min(ne, len(keys)))
        fallback = [k for k in keys if rng.random() < 0.8] + (['out/ghost'] if rng.random() < 0.1 else [])
        if ne == 0 and rng.random() < 0.2:
            fallback = []
        flags.add('explicit-defaults=%d' % len(explicit))
        if explicit and any(explicit[0] in [x for x in deps if x] for _, _, deps in specs):
            flags.add('dependency-on-first-default')
        runs.append((specs, explicit, fallback))
    r = rng.random()
    if r < 0.6:
        pre = None
    elif r < 0.93:
        names = rng.sample(pool, rng.randint(0, len(pool))) + ['stale'] + ([''] if rng.random() < 0.5 else [])
        rng.shuffle(names)
        pre = (rng.choice([0, 1, 1]), [(nm, 10 ** 6 + j) for j, nm in enumerate(names)])
        flags.add('pre-existing-file')
    else:
        pre = (2, [('prog', 10 ** 6)])
        flags.add('too-new-file')
    for f in flags:
        rep.count('hist:' + f)
    rep.count('hist:runs', len(runs))
    return pre, runs, flags


def parse_sln(text):
    """-> (solution guid or None, [(name, guid, [dependency guids])]) as ints"""
    import uuid
    su, projs, cur = None, [], None
    for line in text.split('\n'):
        m = SLN_PROJECT.match(line)
        if m:
            su = uuid.UUID(m.group(1)).int
            cur = (m.group(2), uuid.UUID(m.group(4)).int, [])
            projs.append(cur)
            continue
        m = SLN_DEP.match(line)
        if m and cur is not None:
            assert m.group(1) == m.group(2)
            cur[2].append(uuid.UUID(m.group(1)).int)
        if line == 'EndProject':
            cur = None
    return su, [(n, u, d) for n, u, d in projs]


def read_ufile(path):
    if not os.path.exists(path):
        return None
    st = json.load(open(path))
    return (st['version'], [(k, int(v, 16)) for k, v in st['map'].items()])


class _Creator:
    def __init__(self, out):
        self.public_output = [out]


class _Dep:
    def __init__(self, creator):
        self.creator = creator


def real_history(d, pre, runs, fresh=None):
    """Drive the real UuidMap / Solution / NoopProject classes over one history with real files in d.
    Returns [(outcome, file_after, uuid4_calls_so_far)]."""
    import types
    import uuid
    from unittest import mock
    from bfg9000.backends.msbuild import solution as solmod, syntax as msyntax, writer as mswriter
    import bfg9000.builtins.default as defmod          # registers msbuild_default as a post-rules hook of the writer
    from bfg9000.file_types import Phony

    def output(k):
        ph = Phony(k)
        ph.creator = True
        return ph
    env = types.SimpleNamespace(getvar=lambda k, dflt=None: dflt, srcdir=None)
    path = os.path.join(d, '.bfg_uuid')
    slnpath = os.path.join(d, 'project.sln')
    if pre is not None:
        with open(path, 'w') as f:
            json.dump({'version': pre[0], 'map': {k: uuid.UUID(int=v).hex for k, v in pre[1]}}, f)
    calls = [0]
    real_uuid4 = uuid.uuid4

    def fake_uuid4():
        calls[0] += 1
        return uuid.UUID(int=fresh[calls[0] - 1]) if fresh is not None else real_uuid4()
    out = []
    with mock.patch.object(solmod.uuid, 'uuid4', fake_uuid4):
        for specs, explicit, fallback in runs:
            try:
                uuids = solmod.UuidMap(path)
                s = solmod.Solution(uuids)
                for key, name, deps in specs:
                    dobjs = [_Dep(None if k is None else _Creator(Phony(k))) for k in deps]
                    proj = msyntax.NoopProject(env, name=name, dependencies=s.dependencies(dobjs))
                    s[Phony(key)] = proj
                defaults = defmod.DefaultOutputs()
                for k in fallback:
                    defaults.add(output(k), explicit=False)
                for k in explicit:
                    defaults.add(output(k), explicit=True)
                mswriter.post_rules_hook.run({'defaults': defaults}, s, env)
                with open(slnpath, 'w') as f:
                    s.write(f)
                uuids.save()
                su, projs = parse_sln(open(slnpath).read())
                if not projs:
                    su = s.uuid.int
                res = ('ok', su, projs)
            except RuntimeError:
                res = ('RuntimeError',)
            except ValueError:
                res = ('ValueError',)
            out.append((res, read_ufile(path), calls[0]))
    return out


def dec_hist(raw):
    out = []
    for o, f, n in raw:
        if o[0] == 0:
            res = ('ok', o[1], [(d_str(p[0]), p[1], list(p[2])) for p in o[2]])
        else:
            res = ('RuntimeError',) if o[0] == 1 else ('ValueError',)
        fa = d_opt(lambda vm: (vm[0], [(d_str(kv[0]), kv[1]) for kv in vm[1]]), f)
        out.append((res, fa, n))
    return out


def check_history_property(runs, results):
    """The property on what the real code produced. Returns (failure text, classes) or None."""
    last = {}
    for i, ((specs, explicit, fallback), (res, fa, _)) in enumerate(zip(runs, results)):
        if res[0] != 'ok':
            continue
        _, su, projs = res
        names = [p[0] for p in projs]
        guids = [p[1] for p in projs]
        dup_names = len(set(names)) != len(names) or '' in names
        dup_keys = len(set(k for k, _, _ in specs)) != len(specs)
        if not dup_names and len(set(guids + [su])) != len(guids) + 1:
            return ('run %d: GUIDs are not unique: %r' % (i, [(n, hex(g)) for n, g, _ in projs]), ('guid-not-unique',))
        if not dup_keys:
            for n, g, deps in projs:
                for dg in deps:
                    if dg not in guids:
                        return ('run %d: project %r depends on GUID %x, which is no project of the solution' % (i, n, dg),
                                ('dangling-dependency',))
        if not dup_keys:
            # every step has exactly one Project entry, whatever the defaults are
            if sorted(names) != sorted(nm for _, nm, _ in specs):
                return ('run %d: the steps are %r, the solution lists the projects %r (explicit defaults %r, implicit %r)' % (
                    i, [nm for _, nm, _ in specs], names, explicit, fallback), ('project-entries',))
            # the default project comes first: the first explicit default, else the last implicit one
            first = explicit[0] if explicit else (fallback[-1] if fallback else None)
            want = [nm for k, nm, _ in specs if k == first]
            if want and names[:1] != want:
                return ('run %d: the default project %r (explicit defaults %r, implicit %r) is not the first project of the '
                        'solution: %r' % (i, want[0], explicit, fallback, names), ('default-not-first',))
        created = set(nm for _, nm, _ in specs)       # also projects replaced under a duplicate key were looked up
        if fa is None or set(k for k, _ in fa[1]) != created | {''}:
            return ('run %d: .bfg_uuid holds %r, projects are %r' % (i, fa, sorted(created)), ('uuid-file-keys',))
        cur = {}
        for n, g, _ in projs:
            if cur.setdefault(n, g) != g:
                return ('run %d: project name %r has two GUIDs in one solution' % (i, n), ('guid-not-unique',))
            if n in last and last[n] != g:
                return ('run %d: GUID of %r changed from %x to %x although the project existed in the previous '
                        'successful run' % (i, n, last[n], g), ('guid-not-stable',))
        last = cur
    return None


def stage_uuid(rep, rng, n_hist):
    d0 = common.scratch('c20uuid')
    calls, impl, hists = [], [], []
    bad = 0
    try:
        for h in range(n_hist):
            pre, runs, flags = gen_history(rng, rep)
            patched = h % 4 != 3          # every fourth history runs with the real uuid4 (no model comparison)
            fresh = rng.sample(range(1, 10 ** 6), 200) if patched else None
            d = os.path.join(d0, 'h%d' % h)
            os.makedirs(d)
            results = real_history(d, pre, runs, fresh)
            shutil.rmtree(d, ignore_errors=True)
            rep.case('hist:' + repr((pre, runs)), bool(flags & {'remove', 're-add'}))
            for res, _, _ in results:
                rep.count('run:' + res[0])
            if patched:
                calls.append(('uuid.hist', [fresh, None if pre is None else [[pre[0], [[k, v] for k, v in pre[1]]]],
                                            [[[[k, nm, [None if x is None else [x] for x in deps]] for k, nm, deps in specs],
                                              list(explicit), list(fallback)] for specs, explicit, fallback in runs]]))
                impl.append(results)
            fail = check_history_property(runs, results)
            if fail:
                bad += 1
                if bad <= 25:
                    rep.fail('MSBuild solution history violates the property: ' + fail[0],
                             {'history': {'pre': pre, 'runs': runs, 'fresh': fresh}, 'results': results}, classes=fail[1])
            if h < 2:
                rep.sample({'stage': 'uuid', 'pre': pre, 'runs': runs[:2], 'results': results[:2]})
    finally:
        shutil.rmtree(d0, ignore_errors=True)
    rep.traces += len(calls)
    dis = common.compare_model(rep, 'W:uuid_history', calls, impl, lambda name, raw: dec_hist(raw), vm_limit=20)
    rep.stage('oracle:uuid_history', histories=n_hist, failures=bad)
    return dis, bad


# ----------------------------------------------------------------------------- the real msbuild writer over histories
class _WStep:
    def __init__(self, name, deps=(), broken=False):
        self.name, self.deps, self.broken = name, list(deps), broken


_handlers_registered = []


def _wout(name):
    from bfg9000.file_types import Phony
    ph = Phony(name)
    ph.creator = True
    return ph


def _register_handlers():
    from bfg9000.backends.msbuild import writer
    import bfg9000.builtins.default          # noqa: registers msbuild_default, the writer's post-rules hook
    if _handlers_registered:
        return writer

    @writer.rule_handler(_WStep)
    def _h(rule, build_inputs, solution, env):
        if rule.broken:
            raise NotImplementedError('msbuild backend does not support %r' % rule.name)
        solution[_wout(rule.name)] = writer.NoopProject(env, name=rule.name,
                                                        dependencies=[solution[_wout(d)] for d in rule.deps])
    _handlers_registered.append(True)
    return writer


def stage_writer_histories(rep, rng, n_hist):
    """Direct property check on bfg9000.backends.msbuild.writer.write itself: histories of configure/regenerate runs
    (projects added, kept, removed, re-added; 0..3 explicit defaults per run, steps depending on them; runs that FAIL
    part-way because the script temporarily contains a step the backend cannot represent) in a real build directory; the
    default project is chosen by the writer's real post-rules hook (builtins/default.py); GUIDs, Project entries and their
    order read back from the written .sln."""
    import re as _re
    from bfg9000.path import Path, Root
    from bfg9000.builtins.default import DefaultOutputs
    writer = _register_handlers()
    bad = 0
    proj_re = _re.compile(r'^Project\("(\{[^}]+\})"\) = "([^"]*)", "([^"]*)", "(\{[^}]+\})"$')
    dep_re = _re.compile(r'^\t\t(\{[^}]+\}) = (\{[^}]+\})$')
    for h in range(n_hist):
        d = common.scratch('c20w')
        try:
            class Env:
                srcdir = Path(os.path.join(d, 'src'), Root.absolute)
                builddir = Path(os.path.join(d, 'build'), Root.absolute)

                def getvar(self, name, default=''):
                    return default

                @property
                def base_dirs(self):
                    return {Root.srcdir: self.srcdir, Root.builddir: self.builddir}

            class PI:
                name = 'sol'

            class BI:
                def __init__(self, steps, explicit):
                    self.steps = steps
                    self.defaults = DefaultOutputs()
                    for st in steps:
                        if not st.broken:
                            self.defaults.add(_wout(st.name), explicit=False)
                    for n in explicit:
                        self.defaults.add(_wout(n), explicit=True)

                def edges(self):
                    return list(self.steps)

                def __getitem__(self, k):
                    return {'project': PI, 'defaults': self.defaults}[k]
            os.makedirs(os.path.join(d, 'build'))
            pool = ['lib', 'util', 'app', 'tests', 'tool', 'gen']
            present = set(rng.sample(pool, rng.randint(2, 4)))
            last = {}          # name -> guid at the last successful run
            alive = set()      # names present in every run since that one (failed runs included)
            trace = []
            for run_i in range(rng.randint(4, 9)):
                op = rng.random()
                if op < 0.25 and len(present) > 1:
                    present.discard(rng.choice(sorted(present)))
                elif op < 0.5:
                    present.add(rng.choice(pool))
                order = [n for n in pool if n in present]
                steps = []
                for i, n in enumerate(order):
                    deps = [x for x in order[:i] if rng.random() < 0.4]
                    steps.append(_WStep(n, deps))
                # explicit defaults: none, one, default(a, b), default(a, b, c) / several default() calls; the numbers are
                # dealt out in turn so that every history has runs with 0, 1, 2 and 3 of them
                explicit = rng.sample(order, min(len(order), (h + run_i) % 4))
                if explicit and len(order) > 1 and rng.random() < 0.5:
                    # some later step depends on the first default
                    later = [st for st in steps if st.name != explicit[0] and explicit[0] not in st.deps
                             and order.index(st.name) > order.index(explicit[0])]
                    if later:
                        rng.choice(later).deps.append(explicit[0])
                rep.count('wh:explicit-defaults=%d' % len(explicit))
                fail_at = rng.randrange(len(steps) + 1) if rng.random() < 0.3 else None
                if fail_at is not None:
                    steps.insert(fail_at, _WStep('unsupported', broken=True))
                ok = True
                try:
                    os.chdir(os.path.join(d, 'build'))
                    writer.write(Env(), BI(steps, explicit))
                except NotImplementedError:
                    ok = False
                finally:
                    os.chdir(common.VERIF)
                trace.append({'projects': order, 'deps': {st.name: list(st.deps) for st in steps if st.deps},
                              'explicit_defaults': explicit, 'fails_before_index': fail_at, 'ok': ok})
                alive &= set(order)
                if not ok:
                    continue
                guids, deps, cur = {}, {}, None
                for line in open(os.path.join(d, 'build', 'sol.sln')).read().splitlines():
                    m = proj_re.match(line)
                    if m:
                        cur = m.group(2)
                        guids[cur] = m.group(4)
                        deps[cur] = []
                    elif line == 'EndProject':
                        cur = None
                    elif cur is not None and dep_re.match(line):
                        deps[cur].append(dep_re.match(line).group(1))
                msg = None
                nproj = sum(1 for line in open(os.path.join(d, 'build', 'sol.sln')).read().splitlines() if proj_re.match(line))
                first = explicit[0] if explicit else order[-1]
                if sorted(guids) != sorted(order) or nproj != len(order):
                    msg = 'solution lists projects %r (%d Project entries), the script has %r (explicit defaults %r)' % (
                        sorted(guids), nproj, sorted(order), explicit)
                elif list(guids)[0] != first:
                    msg = 'the default project %r (explicit defaults %r) is not the first project of the solution: %r' % (
                        first, explicit, list(guids))
                elif any(not os.path.isfile(os.path.join(d, 'build', n, n + '.proj')) for n in order):
                    msg = 'a project of the solution has no .proj file'

                elif len(set(guids.values())) != len(guids):
                    msg = 'GUIDs are not unique: %r' % guids
                elif any(g not in guids.values() for n in deps for g in deps[n]):
                    msg = 'a dependency GUID refers to no project of the solution'
                else:
                    for n in alive:
                        if n in guids and last.get(n) not in (None, guids[n]):
                            msg = 'GUID of %r changed from %s to %s although the project existed in every run in between' % (n, last[n], guids[n])
                rep.case('wh:%d:%d:%r' % (h, run_i, trace[-1]), True)
                if msg:
                    bad += 1
                    rep.fail('msbuild writer history: ' + msg, {'history': trace, 'guids': guids}, classes=())
                    break
                last = dict(guids)
                alive = set(order)
        finally:
            shutil.rmtree(d, ignore_errors=True)
    rep.stage('oracle:msbuild.writer histories', histories=n_hist, failures=bad)
    return bad


# ----------------------------------------------------------------------------- real configure with --backend=msbuild
MSBUILD_STUB = os.path.join(common.VERIF, 'harness', 'stubs_msbuild', 'msbuild')
SYS_NAMES = ['lib', 'util', 'app', 'tools/gen', 'docs', 'sub/dir/pack', 'check all']


# copy_file steps: the MSBuild project of a copy step is named after the step's OUTPUT (copy_file_tasks/<output path>); the
# output is the source's own path (plain), that path below directory= , or the explicit name
SYS_COPY_SRC = ['data/x.txt', 'data/y.txt', 'res/icon.bin']
SYS_COPY_DEST = [('plain', None), ('name', 'out/one.txt'), ('name', 'two.txt'), ('name', 'data/renamed.txt'),
                 ('directory', 'stage'), ('directory', 'pkg/share')]


def copy_output(src, form, arg):
    if form == 'plain':
        return src
    if form == 'name':
        return arg
    # directory=: the source path as seen from the directory's parent, below the directory, `..` spelled PAR
    import posixpath
    rel = posixpath.relpath(src, posixpath.dirname(arg) or '.')
    return arg + '/' + '/'.join('PAR' if x == '..' else x for x in rel.split('/'))


def sys_script(steps, default_calls, copies=None):
    """steps: [(name, kind, [dependency names])], kind 'command' | 'alias' | 'copy' (then copies[name] = {src, form, arg,
    mode} and name is the project name the step must get); default_calls: [[names]] = one default() call each"""
    L = ["project('sol', '1.0')"]
    var = {}
    for i, (name, kind, deps) in enumerate(steps):
        var[name] = 's%d' % i
        dl = '[' + ', '.join(var[x] for x in deps) + ']'
        if kind == 'alias':
            L.append("s%d = alias(%r, %s)" % (i, name, dl))
        elif kind == 'copy':
            c = copies[name]
            kw = (", mode=%r" % c['mode'] if c['mode'] != 'copy' else '') + (", extra_deps=%s" % dl if deps else '')
            if c['form'] == 'name':
                L.append("s%d = copy_file(%r, %r%s)" % (i, c['arg'], c['src'], kw))
            elif c['form'] == 'directory':
                L.append("s%d = copy_file(file=%r, directory=%r%s)" % (i, c['src'], c['arg'], kw))
            else:
                L.append("s%d = copy_file(file=%r%s)" % (i, c['src'], kw))
        else:
            L.append("s%d = command(%r, cmd=['echo', %r], extra_deps=%s)" % (i, name, name, dl))
    for call in default_calls:
        L.append('default(' + ', '.join(var[x] for x in call) + ')')
    return '\n'.join(L) + '\n'


def gen_sys_history(rng, h):
    """A configure followed by regenerations of edited scripts.  The number of explicit defaults of a run is dealt out in
    turn over 0..3 (given to one default() call or to one call each), later steps depend on the first default.  Beside the
    command / alias steps every history has copy_file steps in the three spellings of the output (plain, directory=,
    explicit name) drawn over a pool of three sources, so that several copy steps share a source; between runs copy steps
    are added and removed, and a step with an explicit name changes its source while keeping its output."""
    runs = []
    names = rng.sample(SYS_NAMES, rng.randint(2, 4))
    copies = {}          # output path -> {src, form, arg, mode}

    def add_copy(src=None):
        src = src or rng.choice(SYS_COPY_SRC)
        form, arg = rng.choice(SYS_COPY_DEST)
        out = copy_output(src, form, arg)
        if out not in copies:
            copies[out] = {'src': src, 'form': form, 'arg': arg, 'mode': rng.choice(['copy', 'copy', 'symlink', 'hardlink'])}
    first_src = rng.choice(SYS_COPY_SRC)
    for _ in range(rng.randint(2, 3)):          # two of three histories start with several destinations of one source
        add_copy(first_src if h % 3 != 2 else None)
    for run_i in range(3):
        if run_i:
            r = rng.random()
            if r < 0.4 and len(names) > 2:
                victim = rng.choice(names)
                names = [x for x in names if x != victim]
            elif r < 0.8:
                extra = [x for x in SYS_NAMES if x not in names]
                if extra:
                    names = names + [rng.choice(extra)]
            r = rng.random()
            renamed = sorted(o for o, c in copies.items() if c['form'] == 'name')
            if r < 0.45 and renamed:          # same output, another source
                c = copies[rng.choice(renamed)]
                c['src'] = rng.choice([x for x in SYS_COPY_SRC if x != c['src']])
            elif r < 0.65 and len(copies) > 1:
                del copies[rng.choice(sorted(copies))]
            else:
                add_copy(rng.choice(sorted(c['src'] for c in copies.values())) if copies and rng.random() < 0.6 else None)
        cp = {'copy_file_tasks/' + o: dict(c) for o, c in copies.items()}
        order = [x for x in SYS_NAMES if x in names] if rng.random() < 0.5 else list(names)
        for nm in cp:          # the copy steps at random places of the script
            order.insert(rng.randint(0, len(order)), nm)
        ne = min(len(order), (h + run_i) % 4)
        explicit = rng.sample(order, ne)
        steps = []
        for i, name in enumerate(order):
            deps = [x for x in order[:i] if rng.random() < 0.35]
            if explicit and explicit[0] in order[:i] and explicit[0] not in deps and rng.random() < 0.6:
                deps.append(explicit[0])
            if name in cp:
                steps.append((name, 'copy', deps if rng.random() < 0.4 else []))
                continue
            steps.append((name, 'alias' if deps and rng.random() < 0.25 else 'command', deps))
        if ne >= 2 and rng.random() < 0.5:
            calls = [[x] for x in explicit]
        elif ne == 3 and rng.random() < 0.5:
            calls = [explicit[:1], explicit[1:]]
        else:
            calls = [explicit] if explicit else []
        runs.append({'steps': steps, 'default_calls': calls, 'copies': cp})
    return runs


def sys_history(runs):
    """Configure run 0 with the real `bfg9000 configure-into --backend=msbuild`, then `bfg9000 regenerate` after each script
    edit.  Returns (failure text or None, observations)."""
    from . import project
    d = common.scratch('c20sys')
    obs = []
    try:
        src, build = os.path.join(d, 'src'), os.path.join(d, 'build')
        os.makedirs(src)
        last = {}
        for i, run in enumerate(runs):
            steps = [(n, k, list(dp)) for n, k, dp in run['steps']]
            explicit = [x for call in run['default_calls'] for x in call]
            copies = run.get('copies') or {}
            tree = {'build.bfg': sys_script(steps, run['default_calls'], copies)}
            tree.update({s: 'contents of %s\n' % s for s in SYS_COPY_SRC})
            project.write_tree(src, tree)
            if i == 0:
                rc, out = project.configure(src, build, backend='msbuild', extra_env={'MSBUILD': MSBUILD_STUB})
            else:
                rc, out = project.run_bfg(['regenerate', build], cwd=build, extra_env={'MSBUILD': MSBUILD_STUB})
            if rc != 0:
                return 'run %d: bfg9000 exits %d: %s' % (i, rc, out[-400:]), obs
            text = open(os.path.join(build, 'sol.sln')).read()
            su, projs = parse_sln(text)
            entries = [(m.group(2), m.group(3)) for m in map(SLN_PROJECT.match, text.split('\n')) if m]
            raw = [(n, g) for n, g, _ in projs]
            # a copy step is recognised by what its project DOES (the destination of the Copy task in its project file), not
            # by the name the backend chose for the project; from here on it is called copy_file_tasks/<destination>
            relabel = []
            for (n, g, dg), (_, rel) in zip(projs, entries):
                try:
                    m = re.search(r'<Copy SourceFiles="[^"]*" DestinationFiles="\$\(OutDir\)([^"]*)"', open(os.path.join(build, rel)).read())
                except OSError:
                    m = None
                relabel.append('copy_file_tasks/' + m.group(1).replace('\\', '/') if m else n)
            projs = [(lb, g, dg) for lb, (_, g, dg) in zip(relabel, projs)]
            entries = [(lb, rel) for lb, (_, rel) in zip(relabel, entries)]
            obs.append({'projects': [(n, '%032x' % g, ['%032x' % x for x in dg]) for n, g, dg in projs],
                        'names_in_sln': [n for n, _ in raw]})
            names = [n for n, _, _ in projs]
            want = [n for n, _, _ in steps]
            if sorted(names) != sorted(want):
                return ('run %d: the script declares the steps %r (explicit defaults %r), the solution has Project entries for %r'
                        ' (copy steps named by the destination in their project file; names in the .sln: %r)'
                        % (i, want, explicit, names, [n for n, _ in raw])), obs
            guid = {n: g for n, g, _ in projs}
            if len(set(guid.values()) | {su}) != len(projs) + 1:
                return 'run %d: GUIDs are not unique: %r' % (i, obs[-1]), obs
            for n, g, dg in projs:
                decl = sorted(guid[x] for x in [dp for nm, _, dp in steps if nm == n][0])
                if sorted(dg) != decl:
                    return ('run %d: project %r lists the dependency GUIDs %r, its declared dependencies %r have %r'
                            % (i, n, ['%032x' % x for x in sorted(dg)], [dp for nm, _, dp in steps if nm == n][0],
                               ['%032x' % x for x in decl])), obs
            for n, rel in entries:
                if not os.path.isfile(os.path.join(build, rel)):
                    return 'run %d: project file %r of project %r was not written' % (i, rel, n), obs
            # distinct projects have distinct project files, and each project file is the one of its own project (GUID) and
            # step (a copy step's Copy task names its own source and destination)
            rels = [os.path.normpath(rel) for _, rel in entries]
            if len(set(rels)) != len(rels):
                return 'run %d: two projects of the solution share one project file: %r' % (i, entries), obs
            for n, rel in entries:
                ptext = open(os.path.join(build, rel)).read()
                gs = '{%s}' % str(__import__('uuid').UUID(int=guid[n])).upper()
                if '<ProjectGuid>%s</ProjectGuid>' % gs not in ptext:
                    return 'run %d: project file %r of project %r does not carry the GUID %s the solution lists' % (i, rel, n, gs), obs
                if n in copies:
                    c = copies[n]
                    m = re.search(r'<Copy SourceFiles="([^"]*)" DestinationFiles="([^"]*)"', ptext)
                    want_sd = (c['src'].replace('/', '\\'), copy_output(c['src'], c['form'], c['arg']).replace('/', '\\'))
                    if not m or not m.group(1).endswith(want_sd[0]) or m.group(2) != '$(OutDir)' + want_sd[1]:
                        return ('run %d: project file %r of the copy step %r -> %r has the Copy task %r' % (
                            i, rel, c['src'], want_sd[1], m and m.groups())), obs
            # .bfg_uuid: one entry per project (and one for the solution itself)
            ufile = read_ufile(os.path.join(build, '.bfg_uuid'))
            if ufile is None or sorted(k for k, _ in ufile[1]) != sorted([n for n, _ in raw] + ['']) or \
                    any(v != (su if k == '' else dict(raw)[k]) for k, v in ufile[1]):
                return 'run %d: .bfg_uuid holds %r, the solution has the projects %r' % (
                    i, ufile and [(k, '%032x' % v) for k, v in ufile[1]], obs[-1]['projects']), obs
            # command() / alias() steps are never implicit defaults (only link steps are), so only an explicit default moves
            first = explicit[0] if explicit else names[0]
            if names[0] != first:
                return ('run %d: the default project %r (explicit defaults %r) is not the first project of the solution: %r'
                        % (i, first, explicit, names)), obs
            for n, g in guid.items():
                gs = '{%s}' % str(__import__('uuid').UUID(int=g)).upper()
                if text.count(gs + '.Default|Win32.ActiveCfg') != 1 or text.count(gs + '.Default|Win32.Build.0') != 1:
                    return 'run %d: project %r is not listed once in ProjectConfigurationPlatforms' % (i, n), obs
                if n in last and last[n] != g:
                    return ('run %d: the GUID of %r changed from %032x to %032x although the project existed in the previous run'
                            % (i, n, last[n], g)), obs
            last = guid
        return None, obs
    finally:
        shutil.rmtree(d, ignore_errors=True)


def stage_sln_system(rep, rng, n_hist):
    """The whole path: real build scripts (command / alias steps with dependencies, 0..3 explicit defaults given to one or to
    several default() calls) configured with the real `bfg9000 configure-into --backend=msbuild` (a stand-in `msbuild` that
    only answers /version is named by MSBUILD) and regenerated after edits; the written .sln is read back: one Project entry
    and one .proj file per step, the dependency GUIDs are exactly those of the declared dependencies, the first explicit
    default comes first, GUIDs are unique and stable."""
    import concurrent.futures
    hists = [gen_sys_history(rng, h) for h in range(n_hist)]
    bad = 0
    with concurrent.futures.ThreadPoolExecutor(max_workers=8) as ex:
        outs = list(ex.map(sys_history, hists))
    for h, (runs, (fail, obs)) in enumerate(zip(hists, outs)):
        for i, run in enumerate(runs):
            ne = sum(len(c) for c in run['default_calls'])
            rep.count('sys:explicit-defaults=%d' % ne)
            rep.count('sys:default-calls=%d' % len(run['default_calls']))
            cps = run.get('copies') or {}
            srcs = [c['src'] for c in cps.values()]
            rep.count('sys:copy-steps', len(cps))
            if len(set(srcs)) < len(srcs):
                rep.count('sys:run-with-copy-steps-sharing-a-source')
            if i and any(n in runs[i - 1]['copies'] and runs[i - 1]['copies'][n]['src'] != c['src'] for n, c in cps.items()):
                rep.count('sys:copy-step-keeps-output-changes-source')
            rep.case('sys:%r' % (run,), i < len(obs))
        if h < 1:
            rep.sample({'stage': 'sln_system', 'script': sys_script(runs[0]['steps'], runs[0]['default_calls'], runs[0].get('copies')), 'observed': obs[:1]})
        if fail:
            bad += 1
            k = int(re.match(r'run (\d+)', fail).group(1))
            rep.fail('msbuild backend, real configure: ' + fail,
                     {'sys_history': runs, 'observed': obs, 'failing_run': k,
                      'script_of_failing_run': sys_script(runs[k]['steps'], runs[k]['default_calls'], runs[k].get('copies'))}, classes=())
    rep.stage('oracle:msbuild configure/regenerate', histories=n_hist, failures=bad)
    return bad


def run(rep):
    rng = random.Random(rep.seed)
    thorough = rep.tier == 'thorough'
    rep.proof_stage(coqchk=thorough)
    n = 4000 if thorough else 600
    strings = sweep_strings(rep)
    lists = sweep_lists(rng, rep, strings)
    rep.count('sweep:strings', len(strings))
    rep.count('sweep:lists', len(lists))
    dis = stage_w_quote(rep, rng, strings, lists, n)
    dis += stage_w_cmdwrap(rep, rng, lists)
    stage_r_msvcrt(rep, rng, strings, lists, n)
    sdis, _ = stage_split_vs_crt(rep, rng, n)
    dis += sdis
    found = stage_oracle_quote(rep, rng, strings, lists, n * (10 if dis else 1))
    # (a stream of its own: the stages after these draw what they drew before these existed)
    mrng = random.Random(rep.seed * 7 + 20)
    mdis, mbad = stage_msbuild_text(rep, mrng, strings, n)
    if mdis and not mbad:
        _, mbad = stage_msbuild_text(rep, mrng, strings, n, budget=10)       # search with a 10x budget
    dis += mdis
    found += mbad
    found += stage_msbuild_sys(rep, mrng, strings, 16 if thorough else 4)
    if dis and not rep.n_with_input:
        i, call, iv, mv = dis[0]
        rep.fail('W:%s - model and implementation disagree (%d cases), e.g. %r: impl %r, model %r' % (
            call[0], len(dis), call[1], iv, mv),
            {'obligation': 'W:' + call[0], 'call': call, 'impl': iv, 'model': mv, 'n_disagreements': len(dis)},
            found_input=False)
    nh = 400 if thorough else 60
    udis, ubad = stage_uuid(rep, rng, nh)
    ubad += stage_writer_histories(rep, rng, 150 if thorough else 25)
    ubad += stage_sln_system(rep, rng, 40 if thorough else 8)
    if udis and not ubad:
        _, ubad = stage_uuid(rep, rng, nh * 10)       # search with a 10x budget for a failing history
        if not ubad:
            i, call, iv, mv = udis[0]
            k = [j for j, (a, b) in enumerate(zip(iv, mv)) if a != b]
            rep.fail('W:uuid.hist - model and implementation disagree (%d histories), first at run %r: impl %r, model %r' % (
                len(udis), k[:1], [iv[j] for j in k[:1]], [mv[j] for j in k[:1]]),
                {'obligation': 'W:uuid.hist', 'call': call, 'impl': iv, 'model': mv}, found_input=False)


def replay(rep, path):
    r = json.load(open(path))
    print(json.dumps(r, indent=1)[:2000])
    if isinstance(r.get('history'), list):
        return run(rep)          # a writer history (random driver state): the whole check is the replay
    if 'history' in r:
        h = r['history']
        pre = None if h['pre'] is None else (h['pre'][0], [tuple(x) for x in h['pre'][1]])
        runs = [([tuple(s) for s in specs], explicit, fallback) for specs, explicit, fallback in h['runs']]
        d = common.scratch('c20replay')
        try:
            results = real_history(d, pre, runs, h.get('fresh'))
        finally:
            shutil.rmtree(d, ignore_errors=True)
        fail = check_history_property(runs, results)
        if fail:
            rep.fail('MSBuild solution history violates the property: ' + fail[0],
                     {'history': h, 'results': results}, classes=fail[1])
        else:
            print('replayed history no longer fails')
        return
    if 'sys_history' in r:
        fail, obs = sys_history(r['sys_history'])
        if fail:
            rep.fail('msbuild backend, real configure: ' + fail, {'sys_history': r['sys_history'], 'observed': obs}, classes=())
        else:
            print('replayed history no longer fails')
        return
    if 'line' in r and 'crt' in r:
        from bfg9000.shell import windows as wshell
        line = r['line']
        dom, tail, nodd = split_dom_py(line)
        real = wshell.split(line)
        for dd in (0, 1, 2):
            if tail and (nodd or dd == 0) and real != crt_parse(line, dd):
                rep.fail('the line %r is split into %r by windows.split, the Microsoft C runtime rules (variant %d) give %r' % (
                    line, real, dd, crt_parse(line, dd)), {'line': line, 'split': real, 'crt': {str(dd): crt_parse(line, dd)}},
                    classes=())
                return
        print('replayed line no longer fails')
        return
    if 'msbuild_words' in r:
        from bfg9000.backends.msbuild import syntax as ms
        n = 0
        for place, specs in r['msbuild_words'].items():
            if place == 'textify':
                w = specs[0][1]
                t = ms.textify(w, quoted=True)
                for dd in (0, 1, 2):
                    got = crt_parse(t.replace('%%', '%'), dd)
                    if got != [w]:
                        n += 1
                        rep.fail('msbuild textify(%r, quoted=True) gives %r, which the C runtime rules (variant %d) read as %r' % (
                            w, t, dd, got), {'msbuild_words': {'textify': [['str', w]]}, 'want': [w], 'written': t,
                                             'reader': 'crt%d' % dd, 'delivered': got}, classes=())
                        break
                continue
            for f in ms_check({place: specs}):
                n += 1
                ms_fail(rep, *f)
        if not n:
            print('replayed words no longer fail')
        return
    if 'msbuild_sys' in r:
        err, fails = ms_sys_case(r['msbuild_sys'])
        if err:
            rep.fail('msbuild backend, real configure of command / build_step / executable / shared_library steps: ' + err,
                     {'msbuild_sys': r['msbuild_sys']}, classes=())
        for label, want, t, reader, got in fails[:2]:
            rep.fail('msbuild backend, real configure: %s: the words %r are written as %r, which %s reads back as %r' % (
                label, want, t, reader, got), {'msbuild_sys': r['msbuild_sys'], 'place': label, 'want': want, 'written': t,
                                               'reader': reader, 'delivered': got}, classes=())
        if not err and not fails:
            print('replayed configure no longer fails')
        return
    if 'args' in r and 'written' in r:
        from bfg9000.shell import windows as wshell
        args = r['args']
        line = wshell.join(args)
        for k, v in [(('crt', dd), crt_parse(line, dd)) for dd in (0, 1, 2)] + [('split', wshell.split(line))]:
            if v != args:
                rep.fail('arguments %r are written as %r, which %s reads back as %r' % (args, line, k, v),
                         {'args': args, 'written': line, 'reader': str(k), 'delivered': v},
                         classes=classify_quote_failure(args))
                return
        print('replayed input no longer fails')
        return
    run(rep)
