"""Shared machinery of the /verif checks: paths, sx wire format, model runner (extracted
OCaml binary + vm_compute cross-check), Coq proof-state inspection, lint, evidence and the
VIOLATION / KNOWN-FINDING protocol."""
import fcntl
import json
import os
import random
import re
import shutil
import subprocess
import sys
import tempfile
import time
import traceback

VERIF = os.path.dirname(os.path.dirname(os.path.abspath(__file__)))
REPO = os.environ.get('VERIF_REPO', '/repo')
COQ = os.path.join(VERIF, 'coq')
MODEL_BIN = os.path.join(VERIF, 'bin', 'model')
SCRATCH_ROOT = os.environ.get('VERIF_SCRATCH', '/var/tmp')

ALLOWED_AXIOMS = set()   # target: every property theorem closed under the global context

TRUSTED_BASE = [
    'Coq 8.16.1 kernel (coqc); vm_compute used, native_compute not used',
    'axioms: none (every theorem in coq/props is "Closed under the global context")',
    'hand-written Gallina models in coq/theories, tied to /repo by the correspondence stage of this run',
    'extraction: ExtrOcamlBasic only (bool, option, unit, list, prod, sumbool, sumor; inlined andb/orb/negb/fst/snd), no Extract Constant of ours; N/positive stay inductive',
    'coq/extract/driver.ml (sx parser/printer, hand-written) guarded by a vm_compute re-evaluation of a sample of each run',
    'the Python harness (generators, canonicalisation, recorders) under /verif/harness',
]


# ----------------------------------------------------------------------------- sx wire format
def enc(v):
    """Python value -> sx text. str -> list of code points; bool -> 0/1; None -> []; tuple/list -> list."""
    if v is None:
        return '[]'
    if isinstance(v, bool):
        return '1' if v else '0'
    if isinstance(v, int):
        if v < 0:
            raise ValueError('negative int in sx')
        return str(v)
    if isinstance(v, str):
        return '[' + ' '.join(str(ord(c)) for c in v) + ']'
    if isinstance(v, (list, tuple)):
        return '[' + ' '.join(enc(i) for i in v) + ']'
    raise TypeError(type(v))


def parse_sx(text):
    pos = 0
    n = len(text)

    def value():
        nonlocal pos
        while pos < n and text[pos] in ' \t\n':
            pos += 1
        if text[pos] == '[':
            pos += 1
            items = []
            while True:
                while pos < n and text[pos] in ' \t\n':
                    pos += 1
                if text[pos] == ']':
                    pos += 1
                    return items
                items.append(value())
        st = pos
        while pos < n and text[pos].isdigit():
            pos += 1
        return int(text[st:pos])
    return value()


def d_str(x):
    return ''.join(chr(c) for c in x)


def d_bool(x):
    return x != 0


def d_opt(f, x):
    return None if len(x) == 0 else f(x[0])


def d_list(f, x):
    return [f(i) for i in x]


def coq_sx(v):
    """Python value (already in sx-shape: ints / nested lists / str / bool / None) -> Coq term of type sx."""
    if v is None:
        return '(L [])'
    if isinstance(v, bool):
        return '(A %d)' % (1 if v else 0)
    if isinstance(v, int):
        return '(A %d)' % v
    if isinstance(v, str):
        return '(L [' + '; '.join('A %d' % ord(c) for c in v) + '])'
    return '(L [' + '; '.join(coq_sx(i) for i in v) + '])'


def sx_shape(v):
    """Normalise a Python value into the nested int-list shape parse_sx returns."""
    if v is None:
        return []
    if isinstance(v, bool):
        return 1 if v else 0
    if isinstance(v, int):
        return v
    if isinstance(v, str):
        return [ord(c) for c in v]
    return [sx_shape(i) for i in v]


class ModelError(Exception):
    pass


def model_batch(calls):
    """calls: list of (name, pyvalue). Returns list of raw sx results (nested int lists)."""
    if not calls:
        return []
    inp = ''.join('%s %s\n' % (name, enc(arg)) for name, arg in calls)
    p = subprocess.run([MODEL_BIN], input=inp, capture_output=True, text=True)
    if p.returncode != 0:
        raise ModelError('model binary failed: %s' % p.stderr[-500:])
    lines = p.stdout.split('\n')
    out = []
    for (name, _), line in zip(calls, lines):
        r = parse_sx(line)
        if r[0] != 0:
            raise ModelError('unknown model function %s' % name)
        out.append(r[1])
    if len(out) != len(calls):
        raise ModelError('model returned %d results for %d calls' % (len(out), len(calls)))
    return out


def vm_crosscheck(calls, results, limit=200, timeout=300):
    """Re-evaluate the first `limit` calls inside Coq (vm_compute) and compare with the results the
    extracted binary gave.  Returns (n_checked, ok, detail)."""
    calls = calls[:limit]
    results = results[:limit]
    if not calls:
        return 0, True, ''
    d = tempfile.mkdtemp(prefix='vm', dir=SCRATCH_ROOT)
    try:
        lines = ['From BFG Require Import Base.Chars Base.Sx Dispatch.',
                 'From Coq Require Import String.', 'Local Open Scope N_scope.',
                 'Definition cases : list (string * sx * sx) := [']
        items = []
        for (name, arg), res in zip(calls, results):
            items.append('  ("%s"%%string, %s, %s)' % (name, coq_sx(sx_shape(arg)), coq_sx([0, res])))
        lines.append(';\n'.join(items))
        lines.append('].')
        lines.append('Definition bad := filter (fun c => negb (sx_eqb (dispatch (fst (fst c)) (snd (fst c))) (snd c))) cases.')
        lines.append('Eval vm_compute in (List.length bad).')
        src = os.path.join(d, 'cases.v')
        with open(src, 'w') as f:
            f.write('\n'.join(lines) + '\n')
        p = subprocess.run(['coqc', '-Q', os.path.join(COQ, 'theories'), 'BFG', src],
                           capture_output=True, text=True, timeout=timeout)
        m = re.search(r'=\s*(\d+)', p.stdout)
        if p.returncode != 0 or not m:
            return len(calls), False, 'coqc failed: ' + (p.stderr or p.stdout)[-800:]
        nbad = int(m.group(1))
        return len(calls), nbad == 0, '%d of %d sampled cases differ between vm_compute and the extracted binary' % (nbad, len(calls))
    finally:
        shutil.rmtree(d, ignore_errors=True)


# ----------------------------------------------------------------------------- Coq state
LINT_RE = re.compile(r'\b(Admitted|admit|Axiom|Axioms|Parameter|Parameters|Conjecture|Conjectures|'
                     r'Unset\s+Guard|bypass_check|Admit\s+Obligations|type-in-type|impredicative-set|'
                     r'Unset\s+Positivity|Unset\s+Universe\s+Checking|give_up)\b')


def strip_comments(text):
    out = []
    depth = 0
    i = 0
    while i < len(text):
        if text.startswith('(*', i):
            depth += 1
            i += 2
        elif text.startswith('*)', i) and depth:
            depth -= 1
            i += 2
        else:
            if not depth:
                out.append(text[i])
            i += 1
    return ''.join(out)


def lint():
    """Fail-closed scan of the whole development. Returns list of offending (file, line, word)."""
    bad = []
    for root, _, files in os.walk(COQ):
        if 'extract/out' in root:
            continue
        for fn in files:
            if not fn.endswith('.v'):
                continue
            p = os.path.join(root, fn)
            text = strip_comments(open(p).read())
            # Hypothesis / Variable are allowed only inside a Section
            depth = 0
            for ln, line in enumerate(text.split('\n'), 1):
                m = LINT_RE.search(line)
                if m:
                    bad.append((os.path.relpath(p, VERIF), ln, m.group(1)))
                if re.match(r'\s*Section\b', line):
                    depth += 1
                if re.match(r'\s*End\b', line) and depth:
                    depth -= 1
                if depth == 0 and re.match(r'\s*(Hypothesis|Hypotheses|Variable|Variables|Context)\b', line):
                    bad.append((os.path.relpath(p, VERIF), ln, 'Variable/Hypothesis outside Section'))
    return bad


def ensure_built():
    """make (no-op when up to date); build.sh serialises itself with flock. Returns (ok, log_tail)."""
    p = subprocess.run(['sh', os.path.join(COQ, 'build.sh')], capture_output=True, text=True, timeout=3600)
    return p.returncode == 0, (p.stdout + p.stderr)[-3000:]


def check_props(pid, coqchk=False):
    """Compile coq/props/<pid>.v afresh, parse Print Assumptions. Returns dict."""
    src = os.path.join(COQ, 'props', pid + '.v')
    res = {'file': 'coq/props/%s.v' % pid, 'theorems': [], 'ok': False, 'detail': ''}
    if not os.path.exists(src):
        res['detail'] = 'missing props file'
        return res
    text = strip_comments(open(src).read())
    names = re.findall(r'^\s*(?:Theorem|Lemma|Corollary)\s+(\w+)', text, re.M)
    d = tempfile.mkdtemp(prefix='props', dir=SCRATCH_ROOT)
    try:
        p = subprocess.run(['coqc', '-Q', os.path.join(COQ, 'theories'), 'BFG', '-Q', os.path.join(COQ, 'props'), 'BFGProps',
                            '-o', os.path.join(d, pid + '.vo'), src],
                           capture_output=True, text=True, timeout=900)
    finally:
        shutil.rmtree(d, ignore_errors=True)
    if p.returncode != 0:
        res['detail'] = 'coqc failed: ' + (p.stderr or p.stdout)[-1500:]
        res['theorems'] = [{'name': n, 'status': 'unchecked'} for n in names]
        return res
    # Each "Print Assumptions X." prints either "Closed under the global context" or "Axioms:\n..."
    blocks = re.split(r'(?=Closed under the global context|Axioms:)', p.stdout)
    blocks = [b for b in blocks if b.startswith('Closed') or b.startswith('Axioms:')]
    printed = re.findall(r'Print\s+Assumptions\s+(\w+)', text)
    ok = True
    if len(printed) != len(blocks) or set(printed) != set(names):
        ok = False
        res['detail'] = 'Print Assumptions output does not cover every theorem (%d theorems, %d printed, %d blocks)' % (
            len(names), len(printed), len(blocks))
    for n, b in zip(printed, blocks):
        if b.startswith('Closed'):
            res['theorems'].append({'name': n, 'status': 'closed'})
        else:
            axs = re.findall(r'^(\S+)\s*:', b[len('Axioms:'):], re.M)
            extra = [a for a in axs if a not in ALLOWED_AXIOMS]
            res['theorems'].append({'name': n, 'status': 'axioms', 'axioms': axs})
            if extra:
                ok = False
                res['detail'] += ' theorem %s depends on %s;' % (n, extra)
    res['ok'] = ok and len(names) > 0
    if coqchk and res['ok']:
        p = subprocess.run(['coqchk', '-silent', '-o', '-Q', os.path.join(COQ, 'theories'), 'BFG', '-Q',
                            os.path.join(COQ, 'props'), 'BFGProps', 'BFGProps.' + pid],
                           capture_output=True, text=True, timeout=3000)
        res['coqchk'] = (p.stdout + p.stderr)[-1500:]
        if p.returncode != 0:
            res['ok'] = False
            res['detail'] += ' coqchk failed'
    return res


# ----------------------------------------------------------------------------- reporting
def load_known():
    p = os.path.join(VERIF, 'known_findings.json')
    if not os.path.exists(p):
        return []
    return json.load(open(p))


class Report:
    """Collects what one check run did; prints VIOLATION / KNOWN-FINDING lines; writes evidence."""

    def __init__(self, pid, tier, seed, level='proof'):
        self.n_with_input = 0
        self.pid, self.tier, self.seed, self.level = pid, tier, seed, level
        self.t0 = time.time()
        self.violations = []          # (replay path, text)
        self.known_hits = {}          # finding id -> count
        self.known = [k for k in load_known() if k.get('property') == pid and k.get('status') == 'open']
        self.evaluations = 0
        self.nontrivial = set()
        self.samples = []
        self.stages = {}
        self.hist = {}
        self.obligations = 0
        self.discharged = 0
        self.theorems = []
        self.traces = 0
        self.assumptions = []
        self.extra = {}
        self._n = 0
        os.makedirs(os.path.join(VERIF, 'replays'), exist_ok=True)
        for old in os.listdir(os.path.join(VERIF, 'replays')):
            if old.startswith(pid + '-') and old.endswith('.json'):
                os.remove(os.path.join(VERIF, 'replays', old))
        os.makedirs(os.path.join(VERIF, 'evidence'), exist_ok=True)

    # -- counting
    def count(self, key, n=1):
        self.hist[key] = self.hist.get(key, 0) + n

    def case(self, canon, nontrivial=True):
        self.evaluations += 1
        if nontrivial:
            self.nontrivial.add(canon if isinstance(canon, (str, int)) else json.dumps(canon, sort_keys=True, default=str))

    def sample(self, s, cap=12):
        if len(self.samples) < cap:
            self.samples.append(s)

    def stage(self, name, **kw):
        self.stages.setdefault(name, {}).update(kw)

    # -- failures
    def match_known(self, classes):
        """classes: iterable of finding-class strings computed by the check for a failing input."""
        for k in self.known:
            if k['class'] in classes:
                return k
        return None

    def fail(self, what, replay, classes=(), found_input=True):
        """Report a failing input (or a broken obligation). `classes` are the specific finding classes
        the failing input belongs to; if one is listed as an open known finding it is not a violation."""
        k = self.match_known(classes) if found_input else None
        if k is not None:
            self.known_hits[k['id']] = self.known_hits.get(k['id'], 0) + 1
            return False
        self._n += 1
        path = os.path.join('replays', '%s-%d.json' % (self.pid, self._n))
        replay = dict(replay)
        replay.update({'property': self.pid, 'what': what, 'seed': self.seed, 'tier': self.tier,
                       'failing_input_found': found_input})
        with open(os.path.join(VERIF, path), 'w') as f:
            json.dump(replay, f, indent=1, default=str)
        line = 'VIOLATION property=%s replay=%s' % (self.pid, path)
        if not found_input:
            line += ' no-failing-input-found'
        self.violations.append((path, what))
        if found_input:
            self.n_with_input = getattr(self, 'n_with_input', 0) + 1     # failing inputs reported as VIOLATION (known findings excluded)
        # print at most 20 violations with a failing input and 8 without one (a broken tie often repeats itself for every
        # generated case and must not crowd out the failing inputs the oracle finds afterwards)
        key = '_printed_in' if found_input else '_printed_no'
        setattr(self, key, getattr(self, key, 0) + 1)
        if getattr(self, key) <= (20 if found_input else 8):
            print(line)
            print('  ' + what[:300])
        sys.stdout.flush()
        return True

    # -- proof stage
    def proof_stage(self, coqchk=False):
        bad = lint()
        self.stage('lint', offending=len(bad))
        if bad:
            self.fail('lint: forbidden construct in the Coq development: %r' % (bad[:5],),
                      {'obligation': 'lint', 'offending': bad}, found_input=False)
        ok, log = ensure_built()
        self.stage('coq_build', ok=ok)
        if not ok:
            self.fail('the Coq development no longer builds', {'obligation': 'coq build', 'log': log}, found_input=False)
        pr = check_props(self.pid, coqchk=coqchk)
        self.theorems = pr['theorems']
        self.obligations = len(pr['theorems'])
        self.discharged = sum(1 for t in pr['theorems'] if t['status'] in ('closed', 'axioms')) if pr['ok'] else \
            sum(1 for t in pr['theorems'] if t['status'] == 'closed')
        self.stage('props', ok=pr['ok'], detail=pr['detail'], coqchk=pr.get('coqchk', 'not run in this tier'))
        if not pr['ok']:
            self.fail('property theorems of %s are not all checked: %s' % (self.pid, pr['detail']),
                      {'obligation': pr['file'], 'theorems': pr['theorems'], 'detail': pr['detail']}, found_input=False)
        return ok and pr['ok']

    # -- finish
    def finish(self, rule, extra_trusted=(), explanation=''):
        for kid, n in sorted(self.known_hits.items()):
            k = [x for x in self.known if x['id'] == kid][0]
            print('KNOWN-FINDING: property=%s %s [%s; %d failing inputs this run]' % (self.pid, k['what'], kid, n))
        cov = {
            'obligations': max(self.obligations, 0),
            'discharged': self.discharged,
            'checker_cmd': 'cd coq && ./build.sh && coqc -Q theories BFG -Q props BFGProps props/%s.v  (Print Assumptions parsed)' % self.pid,
            'trusted_base': TRUSTED_BASE + list(extra_trusted),
            'theorems': self.theorems,
            'evaluations': self.evaluations,
            'distinct_nontrivial': len(self.nontrivial),
            'rule': rule,
            'samples': self.samples or ['(no sample recorded)'],
            'traces_validated_against_impl': self.traces,
            'stages': self.stages,
            'input_distribution': self.hist,
            'known_findings_hit': self.known_hits,
            'explanation': explanation,
        }
        cov.update(self.extra)
        ev = {'property_id': self.pid, 'tier': self.tier, 'seed': self.seed, 'level': self.level,
              'coverage': cov, 'assumptions': self.assumptions, 'wall_s': round(time.time() - self.t0, 2),
              'violations': len(self.violations)}
        with open(os.path.join(VERIF, 'evidence', self.pid + '.json'), 'w') as f:
            json.dump(ev, f, indent=1, default=str)
        print('%s %s: %d evaluations, %d distinct non-trivial, %d/%d obligations, %d violations, %.1fs' % (
            self.pid, self.tier, self.evaluations, len(self.nontrivial), self.discharged, self.obligations,
            len(self.violations), time.time() - self.t0))
        return 1 if self.violations else 0


def scratch(prefix='bfgv'):
    return tempfile.mkdtemp(prefix=prefix, dir=SCRATCH_ROOT)


def impl_env():
    """Environment for child processes that run the implementation."""
    e = dict(os.environ)
    e['PYTHONPATH'] = REPO
    e['PYTHONHASHSEED'] = '0'
    e['PATH'] = os.path.join(VERIF, 'harness', 'stubs') + ':/venv/bin:' + e.get('PATH', '/usr/bin:/bin')
    e['LC_ALL'] = 'C.UTF-8'
    for k in ('CC', 'CXX', 'CFLAGS', 'CXXFLAGS', 'CPPFLAGS', 'LDFLAGS', 'LDLIBS', 'DESTDIR', 'MAKEFLAGS', 'MFLAGS'):
        e.pop(k, None)
    return e


def canon_exc(e):
    if isinstance(e, ValueError):
        return 'ValueError'
    if isinstance(e, TypeError):
        return 'TypeError'
    return 'Other:' + type(e).__name__


def compare_model(rep, stage, calls, impl_results, decode, vm_limit=200):
    """Generic W-correspondence: run the model on `calls`, decode, compare with impl_results.
    Returns list of (index, call, impl, model) disagreements."""
    raw = model_batch(calls)
    dis = []
    for i, ((name, arg), r, iv) in enumerate(zip(calls, raw, impl_results)):
        mv = decode(name, r)
        if mv != iv:
            dis.append((i, (name, arg), iv, mv))
    n, ok, detail = vm_crosscheck(calls, raw, limit=vm_limit)
    rep.stage(stage, cases=len(calls), disagreements=len(dis), vm_compute_rechecked=n, vm_agrees=ok)
    if not ok:
        rep.fail('extraction glue: ' + detail, {'obligation': 'vm_compute == extracted model', 'detail': detail},
                 found_input=False)
    return dis
