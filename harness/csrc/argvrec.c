/* Recorder stub: appends one line per invocation to $ARGVREC_OUT (or stdout):
     <cwd-hex> <argv0-hex> <argv1-hex> ... | NAME=<hex> ...
   for the environment variable names listed (comma separated) in $ARGVREC_ENV.
   If $ARGVREC_TOUCH is set, every argument following "-o" and every name in $ARGVREC_TOUCH_ARGS
   is created as an empty file so that Make sees the step's output. Exit status 0 (1 for $ARGVREC_FAIL, see below). */
#include <stdio.h>
#include <stdlib.h>
#include <string.h>
#include <unistd.h>
#include <sys/time.h>
static void touch(const char *p) { FILE *t = fopen(p, "a"); if (t) fclose(t); utimes(p, NULL); }
static void hex(FILE *f, const char *s) {
  if (!*s) { fputs("-", f); return; }
  for (; *s; s++) fprintf(f, "%02x", (unsigned char)*s);
}
int main(int argc, char **argv) {
  const char *out = getenv("ARGVREC_OUT");
  FILE *f = out ? fopen(out, "a") : stdout;
  char cwd[4096];
  char line[1];
  (void)line;
  if (!f) return 97;
  if (!getcwd(cwd, sizeof cwd)) cwd[0] = 0;
  hex(f, cwd);
  for (int i = 0; i < argc; i++) { fputc(' ', f); hex(f, argv[i]); }
  fputs(" |", f);
  const char *names = getenv("ARGVREC_ENV");
  if (names) {
    char *copy = strdup(names);
    for (char *n = strtok(copy, ","); n; n = strtok(NULL, ",")) {
      const char *v = getenv(n);
      if (v) { fprintf(f, " %s=", n); hex(f, v); }
    }
  }
  fputc('\n', f);
  if (out) fclose(f);
  /* a step that fails: with $ARGVREC_FAIL set, an invocation one of whose arguments equals it is recorded, creates
     nothing and exits with status 1 */
  const char *failarg = getenv("ARGVREC_FAIL");
  if (failarg && failarg[0])
    for (int i = 1; i < argc; i++) if (!strcmp(argv[i], failarg)) return 1;
  if (getenv("ARGVREC_TOUCH") && getenv("ARGVREC_TOUCH")[0]) {
    /* ar-style invocation: ar rcs libx.a objs... */
    if (argc > 2 && argv[1][0] != '-' && strlen(argv[2]) > 2 && !strcmp(argv[2] + strlen(argv[2]) - 2, ".a")) {
      touch(argv[2]);
    }
    for (int i = 1; i + 1 < argc; i++)
      if (!strcmp(argv[i], "-o") || !strcmp(argv[i], "-MF")) touch(argv[i + 1]);
  }
  return 0;
}
