"""Structured generators shared by the checks. Every choice comes from the Random instance passed in."""
import re

PLAIN = list('abcXYZ019_')
OKPUNCT = list('@%+=:,./-')
SH_SPECIAL = list('\'"$`\\!*?[]{}()<>|&;~#^')
MAKE_SPECIAL = list('$#%:;=,()\\|~*?[] ')
BLANK = [' ', '\t']
UNI_WORD = ['é', 'ß', '日', 'Ω', 'ж']          # \w, not ASCII
UNI_NONWORD = ['€', '–', '…', '«', '→']        # not \w, not whitespace
UNI_SPACE = ['\xa0', ' ', '\x85']          # Unicode whitespace (matches \s)
ALL_UNI = UNI_WORD + UNI_NONWORD + UNI_SPACE

CLASSES = [
    ('plain', PLAIN, 30), ('okpunct', OKPUNCT, 12), ('blank', BLANK, 10), ('squote', ["'"], 10),
    ('sh', SH_SPECIAL, 14), ('make', MAKE_SPECIAL, 12), ('bslash', ['\\'], 6), ('uniw', UNI_WORD, 4),
    ('uninw', UNI_NONWORD, 3), ('unisp', UNI_SPACE, 1),
]


def uni_tables():
    """Classification of the non-ASCII code points the generators use, asserted against Python's re."""
    uw = [c for c in ALL_UNI if re.match(r'\w', c)]
    us = [c for c in ALL_UNI if re.match(r'\s', c)]
    return ''.join(uw), ''.join(us)


def arg_string(rng, rep=None, maxlen=10, classes=CLASSES, allow_empty=True):
    n = rng.choice([0, 1, 1, 2, 2, 3, 3, 4, 5, 6, 8, maxlen]) if allow_empty else rng.choice([1, 1, 2, 2, 3, 4, 5, 6, 8, maxlen])
    weights = [w for _, _, w in classes]
    # bias: each string draws from a random subset of classes so that runs of one class occur
    k = rng.randint(1, len(classes))
    chosen = rng.sample(range(len(classes)), k)
    out = []
    for _ in range(n):
        i = rng.choices(chosen, [weights[j] for j in chosen])[0]
        name, chars, _ = classes[i]
        if rep is not None:
            rep.count('char:' + name)
        out.append(rng.choice(chars))
    return ''.join(out)


def arg_list(rng, rep=None, maxn=5, **kw):
    return [arg_string(rng, rep, **kw) for _ in range(rng.randint(1, maxn))]


def all_strings(alphabet, maxlen):
    out = ['']
    frontier = ['']
    for _ in range(maxlen):
        frontier = [s + c for s in frontier for c in alphabet]
        out.extend(frontier)
    return out
