"""Tracer + fault injector for the C10 check (crash safety of configure / regenerate).

Loaded by the Python interpreter at start-up because the harness puts this directory first on the PYTHONPATH of
the child process only.  It does nothing unless the child's environment has BFG9000_VERIF=1.  Nothing under
/repo is touched: the wrappers sit on builtins.open (write modes), os.remove, os.utime, os.makedirs, os.replace,
os.rename.

Environment:
  BFG9000_VERIF=1            guard; without it this module is inert
  BFG9000_VERIF_ROOT=dir     only mutations of paths under dir are counted / traced (the build directory)
  BFG9000_VERIF_TRACE=file   append one JSON line per process start ({"proc":argv}) and per mutation
  BFG9000_VERIF_FAULT=N:KIND fault at the N-th counted mutation (0-based) of a process; KIND is one of
        raise_before  OSError instead of the mutation (for a close: the content is lost, the file stays empty)
        raise_after   the mutation happens, then OSError
        kill_before   os._exit(137) instead of the mutation (for a close: buffered content lost, file empty)
        kill_after    the mutation happens, then os._exit(137)
  BFG9000_VERIF_ONLY=word    the fault is armed only in a process whose argv contains this word
  BFG9000_VERIF_PROBE=file   append the path of the imported bfg9000 package at exit (which code ran)

A mutation is one of: open (of a file for writing: creates / truncates), close (of such a file: the content
reaches the file), remove, utime, makedirs, rename (os.replace / os.rename: atomic; the record carries "dst").
Content written between open and close is treated as atomic at the close; a fault placed before the close
leaves the file empty (torn writes are not modelled).
"""
import os
import sys

if os.environ.get('BFG9000_VERIF') == '1':
    import atexit
    import builtins
    import json

    _root = os.environ.get('BFG9000_VERIF_ROOT')
    _root = os.path.realpath(_root) if _root else None
    _trace = os.environ.get('BFG9000_VERIF_TRACE')
    _probe = os.environ.get('BFG9000_VERIF_PROBE')
    _only = os.environ.get('BFG9000_VERIF_ONLY')
    _fault = os.environ.get('BFG9000_VERIF_FAULT')
    _fault_n, _fault_kind = (-1, None)
    _real_open = builtins.open
    _real_remove, _real_utime, _real_makedirs = os.remove, os.utime, os.makedirs
    _real_replace, _real_rename = os.replace, os.rename
    _count = [0]
    _armed = [None]      # decided lazily: sys.argv is not set yet when sitecustomize runs

    if _fault:
        a, b = _fault.split(':')
        _fault_n, _fault_kind = int(a), b

    def _is_armed():
        if _armed[0] is None:
            argv = getattr(sys, 'argv', [])
            _armed[0] = bool(_fault) and (not _only or any(_only in x for x in argv))
            _log({'proc': list(argv), 'pid': os.getpid()})
        return _armed[0]

    def _log(rec):
        if _trace:
            fd = os.open(_trace, os.O_WRONLY | os.O_APPEND | os.O_CREAT, 0o644)
            try:
                os.write(fd, (json.dumps(rec) + '\n').encode())
            finally:
                os.close(fd)

    def _rel(path):
        """Path relative to the traced root, or None when the path is not under it."""
        try:
            p = os.path.realpath(os.path.abspath(os.fspath(path)))
        except TypeError:
            return None
        if isinstance(p, bytes):
            p = os.fsdecode(p)
        if _root is None:
            return p
        if p == _root:
            return '.'
        if p.startswith(_root + os.sep):
            return p[len(_root) + 1:]
        return None

    def _point(op, rel, do, undo_to_empty=None, **extra):
        """One mutation point.  `do()` performs the mutation and returns its result."""
        armed = _is_armed()
        n = _count[0]
        _count[0] += 1
        hit = armed and n == _fault_n
        rec = {'n': n, 'op': op, 'path': rel}
        rec.update(extra)
        if hit and _fault_kind in ('raise_before', 'kill_before'):
            if undo_to_empty is not None:
                undo_to_empty()
            rec['fault'] = _fault_kind
            _log(rec)
            if _fault_kind == 'kill_before':
                os._exit(137)
            raise OSError(28, 'BFG9000_VERIF injected fault before %s of %s' % (op, rel))
        err = None
        res = None
        try:
            res = do()
        except BaseException as e:
            # a mutation that fails by itself (e.g. remove of a missing file) is still a point of the run
            err = e
            rec['error'] = type(e).__name__
        if hit:
            rec['fault'] = _fault_kind
        _log(rec)
        if hit:
            if _fault_kind == 'kill_after':
                os._exit(137)
            raise OSError(28, 'BFG9000_VERIF injected fault after %s of %s' % (op, rel))
        if err is not None:
            raise err
        return res

    class _WFile:
        """Proxy of a file opened for writing: the close is a mutation point."""

        def __init__(self, f, rel, path):
            object.__setattr__(self, '_f', f)
            object.__setattr__(self, '_rel', rel)
            object.__setattr__(self, '_path', path)
            object.__setattr__(self, '_done', False)

        def __getattr__(self, name):
            return getattr(self._f, name)

        def __setattr__(self, name, value):
            setattr(self._f, name, value)

        def __iter__(self):
            return iter(self._f)

        def __enter__(self):
            return self

        def __exit__(self, *exc):
            self.close()
            return False

        def _lose(self):
            # the content never reaches the file: close the descriptor, leave the file empty
            try:
                self._f.close()
            except Exception:
                pass
            try:
                os.truncate(self._path, 0)
            except OSError:
                pass

        def close(self):
            if self._done:
                return self._f.close()
            object.__setattr__(self, '_done', True)
            return _point('close', self._rel, self._f.close, undo_to_empty=self._lose)

        def __del__(self):
            try:
                if not self._done:
                    self._f.close()
            except Exception:
                pass

    def _open(file, mode='r', *args, **kwargs):
        if isinstance(file, int) or not any(c in mode for c in 'wax+'):
            return _real_open(file, mode, *args, **kwargs)
        rel = _rel(file)
        if rel is None:
            return _real_open(file, mode, *args, **kwargs)
        existed = os.path.lexists(file)
        f = _point('open', rel, lambda: _real_open(file, mode, *args, **kwargs), mode=mode, existed=existed)
        return _WFile(f, rel, os.path.abspath(os.fspath(file)))

    def _remove(path, *args, **kwargs):
        rel = _rel(path)
        if rel is None:
            return _real_remove(path, *args, **kwargs)
        existed = os.path.lexists(path)
        return _point('remove', rel, lambda: _real_remove(path, *args, **kwargs), existed=existed)

    def _utime(path, *args, **kwargs):
        rel = None if isinstance(path, int) else _rel(path)
        if rel is None:
            return _real_utime(path, *args, **kwargs)
        return _point('utime', rel, lambda: _real_utime(path, *args, **kwargs))

    _in_makedirs = [False]

    def _makedirs(name, *args, **kwargs):
        # os.makedirs recurses through the module global (this wrapper): count the outermost call only
        rel = None if _in_makedirs[0] else _rel(name)
        if rel is None:
            return _real_makedirs(name, *args, **kwargs)
        existed = os.path.isdir(name)

        def do():
            _in_makedirs[0] = True
            try:
                return _real_makedirs(name, *args, **kwargs)
            finally:
                _in_makedirs[0] = False
        return _point('makedirs', rel, do, existed=existed)

    def _mk_rename(real):
        def _ren(src, dst, *args, **kwargs):
            # atomic replacement of dst by src: ONE mutation point (a fault before it leaves both files as they were)
            if kwargs or args or isinstance(src, int) or isinstance(dst, int):
                return real(src, dst, *args, **kwargs)
            rs, rd = _rel(src), _rel(dst)
            if rs is None and rd is None:
                return real(src, dst)
            return _point('rename', rs if rs is not None else os.fspath(src), lambda: real(src, dst),
                          dst=rd if rd is not None else os.fspath(dst), existed=os.path.lexists(dst))
        return _ren

    builtins.open = _open
    import io
    io.open = _open
    os.remove = _remove
    os.unlink = _remove
    os.utime = _utime
    os.makedirs = _makedirs
    os.replace = _mk_rename(_real_replace)
    os.rename = _mk_rename(_real_rename)

    def _at_exit():
        _is_armed()          # a process that performed no mutation still leaves its start record
        if _probe:
            m = sys.modules.get('bfg9000')
            with _real_open(_probe, 'a') as f:
                f.write('%s\n' % (getattr(m, '__file__', None),))
    atexit.register(_at_exit)
