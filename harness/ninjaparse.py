"""Reference Ninja evaluator shipped in /verif.  The whole evaluator is the extracted Coq model: the structure of
build.ninja (lines, rule/build blocks, indentation, scoping: Ninja/NinjaManifest.v parse_manifest, command_of) as
well as lexing and evaluation (Ninja/NinjaRead.v).  This module only decodes the model's answer into the Python
API used by the checks (Manifest.vars/.rules/.builds/.defaults/.command/.edge_for).

The former Python structure splitter is kept as an independent CROSS-CHECK only (`_parse_py`): both must agree on
every manifest seen (file-level values, rule names and bindings, every field of every edge, defaults);
a disagreement raises NinjaDisagreement (a NinjaError), which C02 reports as a broken obligation."""
from . import common
from .common import d_str, d_opt, d_list

STATS = {'manifests': 0, 'edges': 0, 'commands': 0, 'disagreements': 0}


class NinjaError(Exception):
    pass


class NinjaDisagreement(NinjaError):
    """the extracted structure parser and the Python splitter differ, or the manifest leaves the domain on which the
    trusted model is known to coincide with Ninja"""


def _render(toks):
    """token list of the model -> readable raw text (display only)"""
    out = []
    for t in toks:
        if t[0] == 0:
            out.append('$$' if t[1] == 36 else chr(t[1]))
        else:
            out.append('${%s}' % d_str(t[1]))
    return ''.join(out)


def _d_alist(x):
    return [(d_str(p[0]), d_str(p[1])) for p in x]


def _d_tbinds(x):
    return [(d_str(p[0]), p[1]) for p in x]


class Manifest:
    def __init__(self, text=''):
        self.text = text
        self.vars = {}        # file-level, evaluated (may be edited by the caller: the edited scope is used by command())
        self.rules = {}       # name -> {var: raw text (rendered from the model's tokens)}
        self.rule_toks = {}   # name -> [(var, tokens)]
        self.builds = []      # dicts: outputs, rule, inputs, implicit, order_only, bindings [(name, raw text)],
        #                               bound [(name, value)], toks [(name, tokens)], index
        self.defaults = []
        self._cache = None

    def edge_for(self, output):
        for b in self.builds:
            if output in b['outputs']:
                return b
        return None

    def _values(self):
        key = tuple(self.vars.items())
        if self._cache is None or self._cache[0] != key:
            r = common.model_batch([('ninja.edges', [self.text, [[k, v] for k, v in key]])])[0]
            if not r:
                raise NinjaError('the model cannot parse the manifest')
            vals = [[d_opt(d_str, f) for f in e] for e in r[0]]
            if len(vals) != len(self.builds):
                raise NinjaDisagreement('ninja.edges returns %d edges, parse_manifest %d' % (len(vals), len(self.builds)))
            self._cache = (key, vals)
            STATS['commands'] += len(vals)
        return self._cache[1]

    def _field(self, output, i, what):
        b = self.edge_for(output)
        if b is None:
            raise NinjaError('no edge for %r' % output)
        if b['rule'] == 'phony':
            return None
        v = self._values()[b['index']][i]
        if v is None:
            raise NinjaError('cannot evaluate %s of %r (cycle in rule variables)' % (what, output))
        return v

    def command(self, output):
        """The command line Ninja would run to produce `output` (None for phony): model function command_of."""
        return self._field(output, 0, 'command')

    def depfile(self, output):
        return self._field(output, 1, 'depfile')

    def deps(self, output):
        return self._field(output, 2, 'deps')

    def description(self, output):
        return self._field(output, 3, 'description')


def _parse_model(text):
    r = common.model_batch([('ninja.parse_manifest', [text])])[0]
    if not r:
        return None
    vars_, rules, edges, defaults = r[0]
    m = Manifest(text)
    for k, v in _d_alist(vars_):
        m.vars.pop(k, None)          # a later definition shadows and moves to the end, as in the model's scope
        m.vars[k] = v
    for name, binds in rules:
        tb = _d_tbinds(binds)
        m.rule_toks[d_str(name)] = tb
        m.rules[d_str(name)] = {k: _render(t) for k, t in tb}
    for i, e in enumerate(edges):
        outs, rule, ins, imp, oo, bound, raw, selfref = e
        tb = _d_tbinds(raw)
        m.builds.append({'outputs': d_list(d_str, outs), 'rule': d_str(rule), 'inputs': d_list(d_str, ins),
                         'implicit': d_list(d_str, imp), 'order_only': d_list(d_str, oo),
                         'bindings': [(k, _render(t)) for k, t in tb], 'bound': _d_alist(bound), 'toks': tb,
                         'refs_earlier': bool(selfref), 'index': i})
    m.defaults = d_list(d_str, defaults)
    return m


def parse(text):
    """build.ninja text -> Manifest, by the extracted model; cross-checked against the Python splitter."""
    m = _parse_model(text)
    try:
        ref = _parse_py(text)
        ref_err = None
    except NinjaError as e:
        if isinstance(e, NinjaDisagreement):
            raise
        ref, ref_err = None, str(e)
    STATS['manifests'] += 1
    if m is None and ref is None:
        raise NinjaError('cannot parse manifest: %s' % ref_err)
    if m is None or ref is None:
        STATS['disagreements'] += 1
        raise NinjaDisagreement('structure parsers disagree: the model %s, the Python splitter %s' % (
            'rejects the manifest' if m is None else 'accepts the manifest',
            'accepts it' if ref is not None else 'rejects it (%s)' % ref_err))
    why = _compare(m, ref)
    if why:
        STATS['disagreements'] += 1
        raise NinjaDisagreement('structure parsers disagree: ' + why)
    for b in m.builds:
        if b['refs_earlier']:
            raise NinjaDisagreement('edge %r: a binding references an earlier binding of the same edge - real Ninja evaluates '
                                    'edge bindings in the file scope only; outside the modelled domain' % (b['outputs'],))
    STATS['edges'] += len(m.builds)
    return m


def _compare(m, ref):
    if m.vars != ref.vars or list(m.vars) != list(ref.vars):
        return 'file-level variables %r vs %r' % (sorted(set(m.vars.items()) ^ set(ref.vars.items()))[:4], '')
    if list(m.rules) != list(ref.rules):
        return 'rule names %r vs %r' % (list(m.rules), list(ref.rules))
    if m.defaults != ref.defaults:
        return 'defaults %r vs %r' % (m.defaults, ref.defaults)
    if len(m.builds) != len(ref.builds):
        return 'number of edges %d vs %d' % (len(m.builds), len(ref.builds))
    calls, want = [], []
    for name in m.rules:
        if [k for k, _ in m.rule_toks[name]] != list(ref.rules[name]):
            return 'keys of rule %r: %r vs %r' % (name, [k for k, _ in m.rule_toks[name]], list(ref.rules[name]))
        for k, t in m.rule_toks[name]:
            calls.append(('ninja.lex_value', [ref.rules[name][k]])); want.append(('rule %s.%s' % (name, k), t))
    for a, b in zip(m.builds, ref.builds):
        for f in ('outputs', 'rule', 'inputs', 'implicit', 'order_only'):
            if a[f] != b[f]:
                return '%s of edge %r: %r vs %r' % (f, a['outputs'], a[f], b[f])
        if [k for k, _ in a['toks']] != [k for k, _ in b['bindings']]:
            return 'binding names of edge %r' % (a['outputs'],)
        for (k, t), (_, raw) in zip(a['toks'], b['bindings']):
            calls.append(('ninja.lex_value', [raw])); want.append(('edge %r.%s' % (a['outputs'], k), t))
    for (where, t), r in zip(want, common.model_batch(calls)):
        if not r or r[0] != t:
            return 'binding text of %s' % where
    return None


# ----------------------------------------------------------------------------- the cross-check splitter (Python)
def _eval_value(env, text):
    r = common.model_batch([('ninja.eval_value', [[[k, v] for k, v in env.items()], text])])[0]
    v = d_opt(d_str, r)
    if v is None:
        raise NinjaError('cannot lex value %r' % text)
    return v


def _lex_paths(env, text):
    r = common.model_batch([('ninja.lex_paths', [[[k, v] for k, v in env.items()], text])])[0]
    if not r:
        raise NinjaError('cannot lex paths %r' % text)
    return d_list(d_str, r[0][0]), d_str(r[0][1])


class _Ref:
    def __init__(self):
        self.vars, self.rules, self.builds, self.defaults = {}, {}, [], []


def _parse_py(text):
    """Line/block structure split in Python (the former reference evaluator); lexing by the model's primitives."""
    m = _Ref()
    lines = text.split('\n')
    i = 0
    cur = None
    while i < len(lines):
        line = lines[i]
        i += 1
        if line.lstrip(' ').startswith('#'):
            continue                       # Ninja's lexer skips comment lines entirely
        if not line.strip(' '):
            cur = None
            continue
        if line.startswith(' '):
            if cur is None:
                raise NinjaError('unexpected indent: %r' % line)
            # the value runs to the end of the line (trailing blanks belong to it); a name cannot contain '='
            name, sep, val = line.lstrip(' ').partition('=')
            name = name.rstrip(' ')
            if not sep or not name:
                raise NinjaError('cannot parse binding %r' % line)
            if cur[0] == 'rule':
                m.rules[cur[1]][name] = val
            else:
                cur[1]['bindings'].append((name, val))
            continue
        if line.startswith('rule '):
            name = line[5:].strip(' ')
            m.rules[name] = {}
            cur = ('rule', name)
        elif line.startswith('build '):
            outs, rest = _lex_paths(m.vars, line[6:])
            if not rest.startswith(': '):
                raise NinjaError('expected ": " after outputs in %r (rest %r)' % (line, rest))
            rest = rest[2:]
            rule, _, rest = rest.partition(' ')
            inputs, implicit, order_only = [], [], []
            if rest:
                inputs, rest = _lex_paths(m.vars, rest)
                rest = rest.lstrip(' ')
                if rest.startswith('||'):
                    order_only, rest = _lex_paths(m.vars, rest[2:].lstrip(' '))
                elif rest.startswith('|'):
                    implicit, rest = _lex_paths(m.vars, rest[1:].lstrip(' '))
                    rest = rest.lstrip(' ')
                    if rest.startswith('||'):
                        order_only, rest = _lex_paths(m.vars, rest[2:].lstrip(' '))
                if rest.strip(' '):
                    raise NinjaError('trailing text in build line %r: %r' % (line, rest))
            b = {'outputs': outs, 'rule': rule, 'inputs': inputs, 'implicit': implicit, 'order_only': order_only,
                 'bindings': []}
            m.builds.append(b)
            cur = ('build', b)
        elif line.startswith('default '):
            ps, _ = _lex_paths(m.vars, line[8:])
            m.defaults.extend(ps)
            cur = None
        else:
            name, sep, val = line.partition('=')
            name = name.rstrip(' ')
            if not sep or not name:
                raise NinjaError('cannot parse line %r' % line)
            v = _eval_value(m.vars, val)
            m.vars.pop(name, None)
            m.vars[name] = v
            cur = None
    return m
