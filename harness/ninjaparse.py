"""Reference Ninja evaluator shipped in /verif: the *structure* of build.ninja (lines, rule/build blocks,
indentation) is split here in Python (trusted harness code); every piece of text is lexed and evaluated by the
extracted Coq model Ninja/NinjaRead.v (lex_value, lex_paths, neval, scoping)."""
from . import common
from .common import d_str, d_opt, d_list


class NinjaError(Exception):
    pass


def _eval_value(env, text):
    r = common.model_batch([('ninja.eval_value', [[[k, v] for k, v in env.items()], text])])[0]
    v = d_opt(d_str, r)
    if v is None:
        raise NinjaError('cannot lex value %r' % text)
    return v


def _lex_paths(env, text):
    r = common.model_batch([('ninja.lex_paths', [[[k, v] for k, v in env.items()], text])])[0]
    if not r:
        raise NinjaError('cannot lex paths %r' % text)
    return d_list(d_str, r[0][0]), d_str(r[0][1])


class Manifest:
    def __init__(self):
        self.vars = {}        # file-level, evaluated
        self.rules = {}       # name -> {var: raw text}
        self.builds = []      # dicts: outputs, rule, inputs, implicit, order_only, bindings [(name, raw text)]
        self.defaults = []

    def edge_for(self, output):
        for b in self.builds:
            if output in b['outputs']:
                return b
        return None

    def command(self, output):
        """The command line Ninja would run to produce `output` (None for phony)."""
        b = self.edge_for(output)
        if b is None:
            raise NinjaError('no edge for %r' % output)
        if b['rule'] == 'phony':
            return None
        rule = self.rules[b['rule']]
        ins, outs = b['inputs'], b['outputs']
        r = common.model_batch([
            ('ninja.in_out', [ins]), ('ninja.in_out', [outs])])
        in_s, out_s = d_str(r[0]), d_str(r[1])
        raw = common.model_batch([('ninja.command', [[[k, v] for k, v in self.vars.items()],
                                                    [[n, t] for n, t in b['bindings']], in_s, out_s,
                                                    rule['command']])])[0]
        if not raw:
            raise NinjaError('cannot evaluate command of %r' % output)
        return d_str(raw[0])


def parse(text):
    m = Manifest()
    lines = text.split('\n')
    i = 0
    # join $-newline continuations (bfg9000 never emits them; keep the reader honest anyway)
    cur = None
    while i < len(lines):
        line = lines[i]
        i += 1
        if not line.strip() or line.lstrip().startswith('#'):
            cur = None if not line.startswith(' ') else cur
            continue
        if line.startswith(' '):
            if cur is None:
                raise NinjaError('unexpected indent: %r' % line)
            name, sep, val = line.strip().partition(' = ')
            if not sep:
                name, sep, val = line.strip().partition(' =')
            if cur[0] == 'rule':
                m.rules[cur[1]][name] = val
            else:
                cur[1]['bindings'].append((name, val))
            continue
        if line.startswith('rule '):
            name = line[5:].strip()
            m.rules[name] = {}
            cur = ('rule', name)
        elif line.startswith('build '):
            outs, rest = _lex_paths(m.vars, line[6:])
            if not rest.startswith(': '):
                raise NinjaError('expected ": " after outputs in %r (rest %r)' % (line, rest))
            rest = rest[2:]
            rule, _, rest = rest.partition(' ')
            inputs, implicit, order_only = [], [], []
            if rest:
                inputs, rest = _lex_paths(m.vars, rest)
                rest = rest.lstrip(' ')
                if rest.startswith('||'):
                    order_only, rest = _lex_paths(m.vars, rest[2:].lstrip(' '))
                elif rest.startswith('|'):
                    implicit, rest = _lex_paths(m.vars, rest[1:].lstrip(' '))
                    rest = rest.lstrip(' ')
                    if rest.startswith('||'):
                        order_only, rest = _lex_paths(m.vars, rest[2:].lstrip(' '))
                if rest.strip():
                    raise NinjaError('trailing text in build line %r: %r' % (line, rest))
            b = {'outputs': outs, 'rule': rule, 'inputs': inputs, 'implicit': implicit, 'order_only': order_only,
                 'bindings': []}
            m.builds.append(b)
            cur = ('build', b)
        elif line.startswith('default '):
            ps, _ = _lex_paths(m.vars, line[8:])
            m.defaults.extend(ps)
            cur = None
        else:
            name, sep, val = line.partition(' = ')
            if not sep:
                name, sep, val = line.partition(' =')
            if not sep:
                raise NinjaError('cannot parse line %r' % line)
            m.vars[name] = _eval_value(m.vars, val)
            cur = None
    return m
