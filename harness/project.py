"""Helpers to run the real bfg9000 on generated projects (system-level correspondence).

Everything lives in a scratch directory under /var/tmp that the caller removes.  bfg9000 is the module from
common.REPO (PYTHONPATH), started as a fresh interpreter so the working tree is what is tested."""
import json
import os
import shutil
import subprocess
import sys
from . import common, shtools

BFG_MAIN = ("import sys; sys.argv[0] = %r; from bfg9000.driver import main; sys.exit(main())")


def bfg_cmd():
    """Command prefix that runs bfg9000's driver from common.REPO with the venv python.
    sys.argv[0] is set to a `bfg9000` script path inside a bin dir so env.bfgdir is well defined."""
    return ['/venv/bin/python', '-c', BFG_MAIN % '/venv/bin/bfg9000']


def write_tree(root, files):
    for rel, content in files.items():
        p = os.path.join(root, rel)
        os.makedirs(os.path.dirname(p), exist_ok=True)
        mode = 'wb' if isinstance(content, bytes) else 'w'
        with open(p, mode) as f:
            f.write(content)


def run_bfg(args, cwd, env=None, timeout=120, extra_env=None):
    e = common.impl_env() if env is None else dict(env)
    if extra_env:
        e.update(extra_env)
    p = subprocess.run(bfg_cmd() + list(args), cwd=cwd, env=e, capture_output=True, text=True, timeout=timeout)
    return p.returncode, p.stdout + p.stderr


def configure(srcdir, builddir, backend='make', extra_args=(), extra_env=None, timeout=120):
    """bfg9000 configure-into SRCDIR BUILDDIR --backend=... --no-resolve-packages"""
    args = ['configure-into', srcdir, builddir, '--backend=' + backend, '--no-resolve-packages'] + list(extra_args)
    return run_bfg(args, cwd=srcdir, extra_env=extra_env, timeout=timeout)


TOOL_VARS = ('CC', 'CXX', 'AR', 'LD', 'CPP')


def make(builddir, targets=(), stub_tools=False, log=None, envnames=(), extra_env=None, args=(), timeout=300):
    """Run the real GNU Make in builddir.  With stub_tools the compiler/linker/archiver variables are overridden on
    the command line by the argv recorder (which creates the file named after -o), so that the argv each step would
    receive is recorded after Make's and sh's processing.  Returns (rc, records, output)."""
    log = log or os.path.join(builddir, '.argvrec.log')
    if os.path.exists(log):
        os.remove(log)
    e = common.impl_env()
    e.update({'ARGVREC_OUT': log, 'ARGVREC_ENV': ','.join(envnames), 'ARGVREC_TOUCH': '1'})
    if extra_env:
        e.update(extra_env)
    cmd = ['make', '--no-print-directory'] + list(args)
    if stub_tools:
        cmd += ['%s=%s' % (v, shtools.ARGVREC) for v in TOOL_VARS]
    cmd += list(targets)
    p = subprocess.run(cmd, cwd=builddir, env=e, capture_output=True, timeout=timeout)
    recs = shtools.parse_rec(open(log, encoding='utf-8', errors='surrogateescape').read()) if os.path.exists(log) else []
    return p.returncode, recs, (p.stdout + p.stderr).decode('utf-8', 'replace')


def read(builddir, name):
    p = os.path.join(builddir, name)
    return open(p, encoding='utf-8', errors='surrogateescape').read() if os.path.exists(p) else None


def compdb(builddir):
    t = read(builddir, 'compile_commands.json')
    return json.loads(t) if t else None


def snapshot(root):
    """{relative path: (size, mtime_ns, is_dir)} for change detection (e.g. the source dir must stay untouched)."""
    out = {}
    for d, dirs, files in os.walk(root):
        for n in dirs + files:
            p = os.path.join(d, n)
            st = os.lstat(p)
            out[os.path.relpath(p, root)] = (st.st_size if not os.path.isdir(p) else 0, st.st_mtime_ns, os.path.isdir(p))
    return out


class Scratch:
    """with Scratch('c06') as s: s.src, s.build are fresh directories under /var/tmp, removed on exit."""

    def __init__(self, prefix='proj'):
        self.prefix = prefix

    def __enter__(self):
        self.root = common.scratch(self.prefix)
        self.src = os.path.join(self.root, 'src')
        self.build = os.path.join(self.root, 'build')
        os.mkdir(self.src)
        return self

    def __exit__(self, *a):
        shutil.rmtree(self.root, ignore_errors=True)
        return False
