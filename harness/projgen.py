"""Generator of bfg9000 projects for the system-level checks (C01, C02, C03, C06).

A project is described by a small abstract record (sources, libraries, executables, commands, build steps, copies,
aliases, tests, options) from which (a) the build.bfg text and source tree are written and (b) the expectations the
checks compare against (declared argument strings per step, declared dependency DAG) are derived."""
import os
from . import gen, shtools

# characters that take part in known findings of C04 (file names) are kept out of *names* here; arguments are free
NAME_SPECIALS = [' ', '#', '$', '&', '(', ')', ',', '@', '!', '+', '~', '{', '}', '=', ';', '"', '`', '^', '<', '>', '|']
SAFE_NAME_SPECIALS = [' ', '#', '$', '@', '+', '{', '}', '^']   # ',' excluded: known finding C04-make-call-comma      # representable in Make and Ninja, no parens


def pyrepr(x):
    return repr(x)


def odd_name(rng, stem, odd):
    if not odd:
        return stem
    c = rng.choice(SAFE_NAME_SPECIALS)
    pos = rng.choice(['mid', 'mid', 'end'])
    if c == ' ' and pos == 'end':
        pos = 'mid'
    return stem[:1] + c + stem[1:] if pos == 'mid' else stem + c


def adversarial_arg(rng, rep=None):
    s = gen.arg_string(rng, rep, maxlen=7, allow_empty=False,
                       classes=[c for c in gen.CLASSES if c[0] not in ('unisp',)])
    s = s.replace('\n', '').replace('\r', '').replace('\0', '') or 'x'
    return s


class Project:
    def __init__(self):
        self.files = {}          # relpath -> content
        self.lines = []          # build.bfg lines
        self.steps = []          # dicts: kind, output(s), declared args/options, inputs
        self.name = 'proj'

    def script(self):
        return '\n'.join(self.lines) + '\n'

    def tree(self):
        t = dict(self.files)
        t['build.bfg'] = self.script()
        return t


def generate(rng, rep=None, odd_names=False, n_exe=2, n_lib=1, with_commands=True, with_tests=True):
    """Returns a Project. Options are raw strings beginning with -D so that gcc-like tools accept any content."""
    p = Project()
    L = p.lines
    L.append("project(%s, version='1.0')" % pyrepr(p.name))
    gopts = ['-DG%d=%s' % (i, adversarial_arg(rng, rep)) for i in range(rng.randint(0, 2))]
    glopts = ['-Wl,--defsym=g%d=%d' % (i, i) for i in range(rng.randint(0, 1))]
    p.global_compile = gopts
    p.global_link = glopts
    if gopts:
        L.append("global_options(%s, lang='c')" % pyrepr(gopts))
    if glopts:
        L.append("global_link_options(%s)" % pyrepr(glopts))
    libs = []
    for i in range(n_lib):
        lname = odd_name(rng, 'lib%d' % i, False)          # library names become -l flags: keep plain
        srcs = []
        for j in range(rng.randint(1, 2)):
            d = odd_name(rng, 'ld%d' % i, odd_names)
            f = '%s/%s.c' % (d, odd_name(rng, 'l%d_%d' % (i, j), odd_names))
            p.files[f] = 'int l%d_%d(void) { return %d; }\n' % (i, j, i * 10 + j)
            srcs.append(f)
        copts = ['-DL%d=%s' % (i, adversarial_arg(rng, rep)) for _ in range(rng.randint(0, 2))]
        kind = rng.choice(['static_library', 'shared_library', 'library'])
        L.append("%s = %s(%s, files=%s, compile_options=%s)" % ('lib%d' % i, kind, pyrepr(lname), pyrepr(srcs), pyrepr(copts)))
        libs.append('lib%d' % i)
        for s in srcs:
            p.steps.append({'kind': 'compile', 'source': s, 'owner': lname, 'options': copts, 'lib': True})
        p.steps.append({'kind': 'link', 'name': lname, 'sources': srcs, 'libkind': kind})
    for i in range(n_exe):
        ename = odd_name(rng, 'prog%d' % i, odd_names)
        srcs = []
        for j in range(rng.randint(1, 3)):
            d = odd_name(rng, 'sd%d' % i, odd_names)
            f = '%s/%s.c' % (d, odd_name(rng, 's%d_%d' % (i, j), odd_names))
            body = 'int s%d_%d(void) { return 0; }\n' % (i, j)
            if j == 0:
                body += 'int main(void) { return 0; }\n'
            p.files[f] = body
            srcs.append(f)
        copts = ['-DE%d=%s' % (i, adversarial_arg(rng, rep)) for _ in range(rng.randint(0, 3))]
        lopts = ['-Wl,--defsym=e%d=%d' % (i, i)] if rng.random() < 0.5 else []
        use = [l for l in libs if rng.random() < 0.6]
        L.append("exe%d = executable(%s, files=%s, compile_options=%s, link_options=%s, libs=[%s])" % (
            i, pyrepr(ename), pyrepr(srcs), pyrepr(copts), pyrepr(lopts), ', '.join(use)))
        for s in srcs:
            p.steps.append({'kind': 'compile', 'source': s, 'owner': ename, 'options': copts, 'lib': False})
        p.steps.append({'kind': 'link', 'name': ename, 'sources': srcs, 'options': lopts, 'libs': use})
    if with_commands:
        for i in range(rng.randint(1, 3)):
            args = [adversarial_arg(rng, rep) for _ in range(rng.randint(1, 4))]
            env = {}
            if rng.random() < 0.5:
                env = {'V%d' % i: adversarial_arg(rng, rep)}
            L.append("command(%s, cmd=[%s] + %s, environment=%s)" % (
                pyrepr('cmd%d' % i), pyrepr(shtools.ARGVREC), pyrepr(args), pyrepr(env)))
            p.steps.append({'kind': 'command', 'name': 'cmd%d' % i, 'args': args, 'env': env})
        # a build step with two outputs and an input file
        p.files['gen.in'] = 'data\n'
        bargs = [adversarial_arg(rng, rep) for _ in range(2)]
        L.append("bs = build_step(['out1.txt', 'out2.txt'], cmd=[%s, '-o', 'out1.txt', '-o', 'out2.txt'] + %s, files=['gen.in'])" % (
            pyrepr(shtools.ARGVREC), pyrepr(bargs)))
        p.steps.append({'kind': 'build_step', 'outputs': ['out1.txt', 'out2.txt'], 'args': ['-o', 'out1.txt', '-o', 'out2.txt'] + bargs,
                        'inputs': ['gen.in']})
        L.append("copy_file(%s, 'gen.in')" % pyrepr('copied.txt'))
        L.append("alias('everything', [exe0] + list(bs))")
        L.append("default(exe0, *bs)")
    if with_tests:
        # plain test with environment, and a test driver with children (nested quoting: the child command line is
        # written, shell-quoted as a whole and handed to the driver as ONE argument)
        targs = [adversarial_arg(rng, rep) for _ in range(rng.randint(1, 3))]
        tenv = {'TV': adversarial_arg(rng, rep)} if rng.random() < 0.6 else {}
        L.append("test([%s, 'plaintest'] + %s, environment=%s)" % (pyrepr(shtools.ARGVREC), pyrepr(targs), pyrepr(tenv)))
        p.steps.append({'kind': 'test', 'args': ['plaintest'] + targs, 'env': tenv})
        dargs = [adversarial_arg(rng, rep) for _ in range(rng.randint(0, 2))]
        L.append("drv = test_driver([%s, 'driver'] + %s)" % (pyrepr(shtools.ARGVREC), pyrepr(dargs)))
        children = []
        for k in range(rng.randint(1, 3)):
            cargs = ['child%d' % k] + [rng.choice(['$x', 'a$$b', "it's", '$(V)', '${v}']) if rng.random() < 0.4 else adversarial_arg(rng, rep)
                                     for _ in range(rng.randint(0, 3))]
            if k == 0:
                cargs.append(rng.choice(['$x', 'a$$b', '$(V)', '${v}', "q'$"]))     # every driver sees a $ in a child argument
            L.append("test([%s] + %s, driver=drv)" % (pyrepr(shtools.ARGVREC), pyrepr(cargs)))
            children.append([shtools.ARGVREC] + cargs)
        p.steps.append({'kind': 'test_driver', 'args': ['driver'] + dargs, 'children': children})
    return p
