"""Generator of bfg9000 projects for the system-level checks (C01, C02, C03, C06).

A project is described by a small abstract record (sources, libraries, executables, commands, build steps, copies,
aliases, tests, options) from which (a) the build.bfg text and source tree are written and (b) the expectations the
checks compare against (declared argument strings per step, declared dependency DAG) are derived."""
import os
import random
import re
from . import gen, shtools

# characters that take part in known findings of C04 (file names) are kept out of *names* here; arguments are free
NAME_SPECIALS = [' ', '#', '$', '&', '(', ')', ',', '@', '!', '+', '~', '{', '}', '=', ';', '"', '`', '^', '<', '>', '|']
SAFE_NAME_SPECIALS = [' ', '#', '$', '@', '+', '{', '}', '^']   # ',' excluded: known finding C04-make-call-comma      # representable in Make and Ninja, no parens


def pyrepr(x):
    return repr(x)


def odd_name(rng, stem, odd):
    if not odd:
        return stem
    c = rng.choice(SAFE_NAME_SPECIALS)
    pos = rng.choice(['mid', 'mid', 'end'])
    if c == ' ' and pos == 'end':
        pos = 'mid'
    return stem[:1] + c + stem[1:] if pos == 'mid' else stem + c


def adversarial_arg(rng, rep=None):
    s = gen.arg_string(rng, rep, maxlen=7, allow_empty=False,
                       classes=[c for c in gen.CLASSES if c[0] not in ('unisp',)])
    s = s.replace('\n', '').replace('\r', '').replace('\0', '') or 'x'
    return s


# words of forwarded link options: every character a link option may carry except ';' (open finding target-flag-semicolon)
FWD_CHARS = list('abc019') + [' ', '$', '#', "'", '"', '\\', '*', '&', '(', '~', '=', ',', '%', '@']
# characters of DIRECTORY names that end up inside flag words (-I<dir>, -L<dir>, -DX=<path>): not file names of targets
FLAG_DIR_SPECIALS = ['#', '#', ' ', '$', '@', '+', '{', '^']
# directory names in near-prefix families: one extends the other as a STRING without being below it
FAMILY_STEMS = ['data', 'lib', 'a', 'gen', 'out/data', 'x y']
FAMILY_EXTS = ['2', '64', '.b', '-x', '_old', ' x']


def fwd_word(rng):
    return ''.join(rng.choice(FWD_CHARS) for _ in range(rng.randint(1, 4)))


def flag_dir(rng, stem):
    """a directory name with at least one character that is special to Make, sh or Ninja"""
    for _ in range(rng.randint(1, 2)):
        c = rng.choice(FLAG_DIR_SPECIALS)
        k = rng.randint(1, max(1, len(stem) - (1 if c == ' ' else 0)))
        stem = stem[:k] + c + stem[k:]
    return stem


def own_stream(rng, tag):
    """a random stream of its own for one dimension of the project (the draws of the others stay what they were)"""
    return random.Random('%s:%r' % (tag, rng.getstate()[1][:6]))


def fwd_closure(fwd_libs, direct):
    """declared forwarding: {library index: number of declared paths from a consumer that lists `direct`}"""
    paths = {}

    def walk(k):
        paths[k] = paths.get(k, 0) + 1
        for d in fwd_libs[k]['deps']:
            walk(d)
    for k in direct:
        walk(k)
    return paths


class Project:
    def __init__(self):
        self.files = {}          # relpath -> content
        self.lines = []          # build.bfg lines
        self.steps = []          # dicts: kind, output(s), declared args/options, inputs
        self.name = 'proj'

    def script(self):
        return '\n'.join(self.lines) + '\n'

    def tree(self):
        t = dict(self.files)
        t['build.bfg'] = self.script()
        return t


def generate(rng, rep=None, odd_names=False, n_exe=2, n_lib=1, with_commands=True, with_tests=True, with_yacc=True, with_genhdr=True,
             with_fwd=True, with_pathflags=True, with_families=True):
    """Returns a Project. Options are raw strings beginning with -D so that gcc-like tools accept any content."""
    p = Project()
    L = p.lines
    frng, prng, crng = own_stream(rng, 'fwd'), own_stream(rng, 'pathflags'), own_stream(rng, 'families')
    p.fwd_libs, p.global_path_compile, p.global_path_link = [], [], []
    L.append("project(%s, version='1.0')" % pyrepr(p.name))
    gopts = ['-DG%d=%s' % (i, adversarial_arg(rng, rep)) for i in range(rng.randint(0, 2))]
    glopts = ['-Wl,--defsym=g%d=%d' % (i, i) for i in range(rng.randint(0, 1))]
    # the same word more than once in a global list: a macro re-asserted after its negation, two-word options sharing
    # their first word (every occurrence, in order, is what the script specifies)
    if rng.random() < 0.5:
        gopts = gopts + ['-DREP=1', '-UREP', '-DREP=1']
    if rng.random() < 0.5:
        glopts = glopts + ['-Xlinker', '--as-needed', '-Xlinker', '--no-as-needed']
    p.global_compile = gopts
    p.global_link = glopts
    if gopts:
        L.append("global_options(%s, lang='c')" % pyrepr(gopts))
    if glopts:
        L.append("global_link_options(%s)" % pyrepr(glopts))
    if with_pathflags:
        # flag words that are NOT plain strings when the build files are written: include directories, library directories
        # and words joined from a string and a path, whose names contain characters special to Make / sh / Ninja
        gi, gl, gf = flag_dir(prng, 'ginc'), flag_dir(prng, 'glib'), flag_dir(prng, 'gsrc') + '.dat'
        p.files[gi + '/g.h'] = '#define GH 1\n'
        p.files[gl + '/keep'] = ''
        p.files[gf] = 'x\n'
        L.append("global_options([opts.include_dir(header_directory(%r)), safe_format('-DGPATH={}', generic_file(%r))], lang='c')" % (gi, gf))
        L.append("global_link_options([opts.lib_dir(directory(%r))])" % gl)
        p.global_path_compile = [('-I', gi), ('-DGPATH=', gf)]
        p.global_path_link = [('-L', gl)]
    if with_fwd:
        # static libraries whose link_options= are FORWARDED to whatever links them, some of them through another static
        # library (libs=); several consumers, declared one after the other, list several of them each (below)
        for k in range(frng.randint(2, 3)):
            words = ['-Wl,--defsym=fw%d_%d=%s' % (k, j, fwd_word(frng)) for j in range(frng.randint(1, 2))]
            deps = [frng.randrange(k)] if k >= 1 and frng.random() < 0.3 else []
            f = 'fwd/fw%d.c' % k
            p.files[f] = 'int fw%d(void) { return %d; }\n' % (k, k)
            L.append("fw%d = static_library('fw%d', files=[%r], link_options=%s%s)" % (
                k, k, f, pyrepr(words), ', libs=[%s]' % ', '.join('fw%d' % d for d in deps) if deps else ''))
            p.fwd_libs.append({'var': 'fw%d' % k, 'file': 'libfw%d.a' % k, 'words': words, 'deps': deps})
            p.steps.append({'kind': 'compile', 'source': f, 'owner': 'fw%d' % k, 'options': [], 'lib': True})

    def fwd_pick(first):
        """the forwarding libraries one consumer lists, in drawn order (the first consumer lists at least two)"""
        n = len(p.fwd_libs)
        if not n:
            return []
        k = frng.randint(2, n) if first else frng.choice([0, 1, 2, 2, n])
        return frng.sample(range(n), min(k, n))
    libs = []
    for i in range(n_lib):
        lname = odd_name(rng, 'lib%d' % i, False)          # library names become -l flags: keep plain
        srcs = []
        for j in range(rng.randint(1, 2)):
            d = odd_name(rng, 'ld%d' % i, odd_names)
            f = '%s/%s.c' % (d, odd_name(rng, 'l%d_%d' % (i, j), odd_names))
            p.files[f] = 'int l%d_%d(void) { return %d; }\n' % (i, j, i * 10 + j)
            srcs.append(f)
        copts = ['-DL%d=%s' % (i, adversarial_arg(rng, rep)) for _ in range(rng.randint(0, 2))]
        kind = rng.choice(['static_library', 'shared_library', 'library'])
        L.append("%s = %s(%s, files=%s, compile_options=%s)" % ('lib%d' % i, kind, pyrepr(lname), pyrepr(srcs), pyrepr(copts)))
        libs.append('lib%d' % i)
        for s in srcs:
            p.steps.append({'kind': 'compile', 'source': s, 'owner': lname, 'options': copts, 'lib': True})
        p.steps.append({'kind': 'link', 'name': lname, 'sources': srcs, 'libkind': kind})
    for i in range(n_exe):
        ename = odd_name(rng, 'prog%d' % i, odd_names)
        srcs = []
        for j in range(rng.randint(1, 3)):
            d = odd_name(rng, 'sd%d' % i, odd_names)
            f = '%s/%s.c' % (d, odd_name(rng, 's%d_%d' % (i, j), odd_names))
            body = 'int s%d_%d(void) { return 0; }\n' % (i, j)
            if j == 0:
                body += 'int main(void) { return 0; }\n'
            p.files[f] = body
            srcs.append(f)
        copts = ['-DE%d=%s' % (i, adversarial_arg(rng, rep)) for _ in range(rng.randint(0, 3))]
        lopts = ['-Wl,--defsym=e%d=%d' % (i, i)] if rng.random() < 0.5 else []
        use = [l for l in libs if rng.random() < 0.6]
        fuse = fwd_pick(first=(i == 0))
        inc_items, cpath, lpath = [], [], []
        if with_pathflags:
            idirs = [flag_dir(prng, 'inc%d' % i) for _ in range(prng.randint(1, 2))]
            for d in idirs:
                p.files[d + '/e%d.h' % i] = '#define EH 1\n'
            pf, ld = flag_dir(prng, 'psrc%d' % i) + '.dat', flag_dir(prng, 'ldir%d' % i)
            p.files[pf] = 'x\n'
            p.files[ld + '/keep'] = ''
            inc_items += [pyrepr(d) for d in idirs]
            cpath = [('-I', d) for d in idirs] + [('-DEPATH%d=' % i, pf)]
            lpath = [('-L', ld)]
        gensrcs = ''
        if with_yacc and i == 0:
            # sources in a language that is TRANSLATED to C first (yacc; harness/stubs/yacc stands in for bison): a step with
            # two outputs - translation unit and header, which the Make backend routes through a stamp file - and a step with
            # one named output, each with options of its own; the program compiles and links what they produce
            # The steps of one translator share whatever a backend emits ONCE per tool (the Ninja `rule`, the Make
            # `define`), so the shapes are MIXED and their order is drawn: default outputs (two, named after the source)
            # and one explicitly named output - always at least one step of each shape, either of them first, sometimes
            # a third step of either shape. (generated_source() accepts no list of two names, and directory= does not
            # combine with the two default names: the two shapes are all the builtin offers for this tool.)
            yrng = random.Random(rng.random())
            yd = odd_name(yrng, 'yd', odd_names)
            shapes = ['default2', 'named1']
            if yrng.random() < 0.5:
                shapes.reverse()
            if yrng.random() < 0.4:
                shapes.insert(yrng.randint(0, 2), yrng.choice(['default2', 'named1']))
            p.yacc_shapes = list(shapes)
            gvars = []
            for k, shape in enumerate(shapes):
                var = 'gy%d' % k
                ysrc = ('%s/%s.y' % (yd, odd_name(yrng, 'gram%d' % k, odd_names)) if shape != 'named1' or yrng.random() < 0.3
                        else odd_name(yrng, 'single%d' % k, odd_names) + '.y')
                p.files[ysrc] = '%%\n'
                yopts = ['-DY%d_%d=%s' % (k, j, adversarial_arg(yrng, rep)) for j in range(yrng.randint(0 if shape == 'named1' else 1, 3))]
                if shape == 'default2':
                    youts = [ysrc[:-2] + '.tab.c', ysrc[:-2] + '.tab.h']
                    L.append("%s = generated_source(file=%s, options=%s)" % (var, pyrepr(ysrc), pyrepr(yopts)))
                else:
                    youts = [yrng.choice(['ygen/', 'ygen/deep/', '']) + odd_name(yrng, 'one%d' % k, odd_names) + '.c']
                    L.append("%s = generated_source(%s, %s, options=%s)" % (var, pyrepr(youts[0]), pyrepr(ysrc), pyrepr(yopts)))
                gvars.append(var + '[0]' if len(youts) == 2 else var)
                p.steps.append({'kind': 'generate', 'source': ysrc, 'options': yopts, 'outputs': youts, 'owner': ename, 'shape': shape})
            gensrcs = ' + [%s]' % ', '.join(gvars)
        pch = ''
        if i == n_exe - 1 and rng.random() < 0.5:
            # a precompiled header: its step and the steps that use it must be the same in every backend (which file is
            # compiled, which prerequisites)
            p.files['pch%d.h' % i] = '#define PCH%d 1\n' % i
            L.append("pch%d = precompiled_header(file='pch%d.h')" % (i, i))
            pch = ', pch=pch%d' % i
        if with_genhdr and i == n_exe - 1:
            # header FILES produced by steps of the project and handed over through includes=: the directory of each
            # becomes an include directory of the program's compile steps. One header is generated at the TOP of the build
            # directory (the include directory is the build directory itself, the path with the empty suffix), others in
            # (nested) sub-directories of it. (A stream of its own: the draws of the rest of the project stay what they were.)
            hrng = random.Random('genhdr:%r' % ((ename, srcs, copts),))
            hdrs = ['topcfg.h'] + hrng.sample(['hgen/sub.h', 'hgen/deep/er/deep.h', odd_name(hrng, 'hodd', odd_names) + '/odd.h'],
                                             hrng.randint(0, 2))
            hrng.shuffle(hdrs)
            for k, h in enumerate(hdrs):
                L.append("ghdr%d = build_step(%s, cmd=[%s, '-o', %s, 'genhdr'])" % (k, pyrepr(h), pyrepr(shtools.ARGVREC), pyrepr(h)))
            inc_items = ['ghdr%d' % k for k in range(len(hdrs))] + inc_items
            p.generated_headers = hdrs
        if inc_items:
            pch += ', includes=[%s]' % ', '.join(inc_items)
        copts_text, lopts_text = pyrepr(copts), pyrepr(lopts)
        if cpath:
            copts_text += " + [safe_format('%s{}', generic_file(%r))]" % cpath[-1]
            lopts_text += " + [opts.lib_dir(directory(%r))]" % lpath[0][1]
        L.append("exe%d = executable(%s, files=%s%s, compile_options=%s, link_options=%s, libs=[%s]%s)" % (
            i, pyrepr(ename), pyrepr(srcs), gensrcs, copts_text, lopts_text, ', '.join(use + [p.fwd_libs[k]['var'] for k in fuse]), pch))
        for s in srcs:
            p.steps.append({'kind': 'compile', 'source': s, 'owner': ename, 'options': copts, 'lib': False, 'path_words': cpath,
                            'path_words_after_options': cpath[-1:]})
        p.steps.append({'kind': 'link', 'name': ename, 'out': ename, 'sources': srcs, 'options': lopts, 'libs': use, 'fwd': fuse,
                        'path_words': lpath, 'path_words_after_options': lpath})
    if with_fwd:
        # further consumers of the forwarding libraries, declared after the programs: programs and shared libraries
        for k in range(frng.randint(3, 4)):
            shared = frng.random() < 0.4
            name, out = ('fwsh%d' % k, 'libfwsh%d.so' % k) if shared else ('progfw%d' % k, 'progfw%d' % k)
            f = 'fwd/use%d.c' % k
            p.files[f] = 'int use%d(void) { return 0; }\n' % k if shared else 'int main(void) { return 0; }\n'
            fuse = fwd_pick(first=False) or fwd_pick(first=True)
            own = ['-Wl,--defsym=own%d=%d' % (k, k)] if frng.random() < 0.5 else []
            L.append("fwuse%d = %s(%r, files=[%r], link_options=%s, libs=[%s])" % (
                k, 'shared_library' if shared else 'executable', name, f, pyrepr(own), ', '.join(p.fwd_libs[j]['var'] for j in fuse)))
            p.steps.append({'kind': 'compile', 'source': f, 'owner': name, 'options': [], 'lib': shared})
            p.steps.append({'kind': 'link', 'name': name, 'out': out, 'sources': [f], 'options': own, 'libs': [], 'fwd': fuse,
                            'path_words': []})
    if with_commands:
        for i in range(rng.randint(1, 3)):
            args = [adversarial_arg(rng, rep) for _ in range(rng.randint(1, 4))]
            env = {}
            if rng.random() < 0.5:
                env = {'V%d' % i: adversarial_arg(rng, rep)}
            L.append("command(%s, cmd=[%s] + %s, environment=%s)" % (
                pyrepr('cmd%d' % i), pyrepr(shtools.ARGVREC), pyrepr(args), pyrepr(env)))
            p.steps.append({'kind': 'command', 'name': 'cmd%d' % i, 'args': args, 'env': env})
        # a command given as ONE shell line that starts two processes, and a command with two command lines: the declared
        # environment belongs to the step, so every process of it must receive it
        senv = {'V3': adversarial_arg(rng, rep)}
        sep = rng.choice([' && ', ' ; '])
        L.append("command('scmd', cmd=%s, environment=%s)" % (
            pyrepr("%s first 'a b'%s%s second" % (shtools.ARGVREC, sep, shtools.ARGVREC)), pyrepr(senv)))
        p.steps.append({'kind': 'shell_command', 'name': 'scmd', 'procs': [['first', 'a b'], ['second']], 'env': senv})
        menv = {'V2': adversarial_arg(rng, rep)}
        L.append("command('mcmd', cmds=[[%s, 'm1'], [%s, 'm2', 'x y']], environment=%s)" % (
            pyrepr(shtools.ARGVREC), pyrepr(shtools.ARGVREC), pyrepr(menv)))
        p.steps.append({'kind': 'shell_command', 'name': 'mcmd', 'procs': [['m1'], ['m2', 'x y']], 'env': menv})
        # a build step with two outputs and an input file
        p.files['gen.in'] = 'data\n'
        bargs = [adversarial_arg(rng, rep) for _ in range(2)]
        L.append("bs = build_step(['out1.txt', 'out2.txt'], cmd=[%s, '-o', 'out1.txt', '-o', 'out2.txt'] + %s, files=['gen.in'])" % (
            pyrepr(shtools.ARGVREC), pyrepr(bargs)))
        p.steps.append({'kind': 'build_step', 'outputs': ['out1.txt', 'out2.txt'], 'args': ['-o', 'out1.txt', '-o', 'out2.txt'] + bargs,
                        'inputs': ['gen.in']})
        L.append("copy_file(%s, 'gen.in')" % pyrepr('copied.txt'))
        # copies, symbolic and hard links of source-tree files and of generated files, at the top of the build directory and
        # in (nested) sub-directories: a symbolic link's target is written relative to the directory of the link
        modes = ['copy', 'symlink', 'hardlink']
        copies = [('copied.txt', 'src:gen.in', "'gen.in'", 'copy'),
                  ('cdir/sub/from_step.txt', 'out1.txt', 'bs[0]', rng.choice(modes)),
                  ('cdir/from_src.txt', 'src:gen.in', "'gen.in'", rng.choice(modes)),
                  ('cdir/link_to_step.txt', 'out2.txt', 'bs[1]', 'symlink'),
                  ('top_link.txt', 'out2.txt', 'bs[1]', rng.choice(modes))]
        for out, _, expr, mode in copies[1:]:
            L.append("copy_file(%r, %s, mode=%r)" % (out, expr, mode))
        if with_families:
            # ... and between directories whose names come in NEAR-PREFIX families (data / data2, lib / lib64, a / a.b): one
            # name extends the other as a string without being below it; generated (build-directory) inputs and source-tree
            # inputs, the link in the shorter or in the longer directory, either of them nested deeper, and the true
            # parent / child case next to them
            for k in range(crng.randint(2, 3)):
                # (blanks only in the projects with odd names: the others are also read by a plain-text rule parser)
                stem = crng.choice([x for x in FAMILY_STEMS if odd_names or ' ' not in x])
                if odd_names and crng.random() < 0.5:
                    stem = odd_name(crng, stem.replace('/', '_'), True)
                short, long_ = stem, stem + crng.choice([x for x in FAMILY_EXTS if odd_names or ' ' not in x])
                # (the first one is always a symbolic link in the shorter-named directory to a generated file in the longer-named)
                shape = crng.choice(['in-long', 'in-long', 'in-long', 'in-short', 'child']) if k else 'in-long'
                din, dout = (long_, short) if shape == 'in-long' else (short, long_) if shape == 'in-short' else (short + '/sub', short)
                if crng.random() < 0.3:
                    din += '/deep'
                if crng.random() < 0.2 and k:
                    dout += '/er'
                if crng.random() < 0.3:
                    din, dout = 'fam/' + din, 'fam/' + dout
                mode = crng.choice(['symlink', 'symlink', 'symlink', 'copy', 'hardlink']) if k else 'symlink'
                fin, fout = '%s/in%d.txt' % (din, k), '%s/ln%d.txt' % (dout, k)
                if crng.random() < 0.75 or not k:
                    L.append("fin%d = build_step(%r, cmd=[%s, '-o', %r, 'famgen'])" % (k, fin, pyrepr(shtools.ARGVREC), fin))
                    p.steps.append({'kind': 'build_step', 'outputs': [fin], 'args': ['-o', fin, 'famgen'], 'inputs': []})
                    copies.append((fout, fin, 'fin%d' % k, mode))
                else:
                    p.files[fin] = 'family\n'
                    copies.append((fout, 'src:' + fin, pyrepr(fin), mode))
                L.append("fam%d = copy_file(%r, %s, mode=%r)" % (k, fout, copies[-1][2], mode))
        for out, src, _, mode in copies:
            p.steps.append({'kind': 'copy', 'out': out, 'src': src, 'mode': mode})
        L.append("alias('everything', [exe0] + list(bs))")
        L.append("default(exe0, *bs)")
    if with_tests:
        # plain test with environment, and a test driver with children (nested quoting: the child command line is
        # written, shell-quoted as a whole and handed to the driver as ONE argument)
        targs = [adversarial_arg(rng, rep) for _ in range(rng.randint(1, 3))]
        tenv = {'TV': adversarial_arg(rng, rep)} if rng.random() < 0.6 else {}
        L.append("test([%s, 'plaintest'] + %s, environment=%s)" % (pyrepr(shtools.ARGVREC), pyrepr(targs), pyrepr(tenv)))
        p.steps.append({'kind': 'test', 'args': ['plaintest'] + targs, 'env': tenv})
        dargs = [adversarial_arg(rng, rep) for _ in range(rng.randint(0, 2))]
        L.append("drv = test_driver([%s, 'driver'] + %s)" % (pyrepr(shtools.ARGVREC), pyrepr(dargs)))
        children = []
        for k in range(rng.randint(1, 3)):
            cargs = ['child%d' % k] + [rng.choice(['$x', 'a$$b', "it's", '$(V)', '${v}']) if rng.random() < 0.4 else adversarial_arg(rng, rep)
                                     for _ in range(rng.randint(0, 3))]
            if k == 0:
                cargs.append(rng.choice(['$x', 'a$$b', '$(V)', '${v}', "q'$"]))     # every driver sees a $ in a child argument
            L.append("test([%s] + %s, driver=drv)" % (pyrepr(shtools.ARGVREC), pyrepr(cargs)))
            children.append([shtools.ARGVREC] + cargs)
        p.steps.append({'kind': 'test_driver', 'args': ['driver'] + dargs, 'children': children})
    return p


# ----------------------------------------------------------------------------- dependency-shape projects (C03)
def generate_graph(rng, rep=None):
    """A project made of the dependency shapes C03 quantifies over, every output explicitly named so that the declared
    DAG can be written down next to the script: header FILE objects in includes= (source and generated headers) on
    plain compiles and on a pch given by name, extra_deps= on compile / link / copy_file, libs= on a static library, an
    object file shared by two executables, nested output directories, single- and multi-output build_steps and
    consumers of their outputs, copies / symbolic links / hard links of GENERATED files (and a link to a link) with
    consumers of the link, a versioned shared library (real file + soname link + development link) with an executable
    linking it.  Returns a Project whose .graph is a list of steps
        {'out': primary output, 'outs': [...], 'consumes': [...], 'multi': bool, 'real_tool': run by cp/ln, not the recorder}
    where a consumed name is 'src:<path below srcdir>' or an output path below builddir."""
    p = Project()
    p.name = 'graph'
    L, G = p.lines, []
    p.graph = G
    rec = shtools.ARGVREC
    L.append("project('graph')")

    def src(name, text='x\n'):
        p.files[name] = text
        return 'src:' + name

    def coin(pr=0.5):
        return rng.random() < pr

    hdr = src('inc/h.h', '#define H 1\n')
    L.append("hdr = header_file('inc/h.h')")
    conf = None
    if coin(0.8):
        d = rng.choice(['gen', 'gen/deep'])
        conf = d + '/conf.h'
        L.append("conf = build_step(%r, cmd=[%r, '-o', %r, 'conf'], files=['conf.in'])" % (conf, rec, conf))
        G.append({'out': conf, 'outs': [conf], 'consumes': [src('conf.in')], 'multi': False})
    multi = None
    if coin(0.8):
        k = rng.choice([2, 3])
        dirs = rng.choice([['gen'] * 3, ['gen', 'gen/m', 'gen'], ['m1', 'm2', 'm3']])
        multi = ['%s/multi%d.txt' % (dirs[j], j) for j in range(k)]
        L.append("bs = build_step(%r, cmd=[%r] + %r + ['multi'], files=['multi.in'])" % (
            multi, rec, [x for o in multi for x in ('-o', o)]))
        G.append({'out': multi[0], 'outs': multi, 'consumes': [src('multi.in')], 'multi': True})

    def compile_step(var, out, source, with_pch=False):
        incs, cons = [], [src(source, 'int %s(void) { return 0; }\n' % re.sub(r'\W', '_', out))]
        if coin(0.7):
            incs.append('hdr'); cons.append(hdr)
        if conf and coin(0.6):
            incs.append('conf'); cons.append(conf)
        kw = ''
        if coin(0.5):
            dep = source + '.dep'
            kw += ', extra_deps=[%r]' % dep
            cons.append(src(dep))
        if with_pch:
            # pch given by NAME: the builtin creates the precompiled-header step, which consumes the same header objects
            kw += ", pch='pch.h'"
            G.append({'out': 'pch.h.gch', 'outs': ['pch.h.gch'], 'multi': False,
                      'consumes': [src('pch.h', '#define P 1\n')] + [c for c in cons[1:] if not c.endswith('.dep')]})
            cons.append('pch.h.gch')
        L.append("%s = object_file(%r, file=%r, includes=[%s]%s)" % (var, out[:-2], source, ', '.join(incs), kw))
        G.append({'out': out, 'outs': [out], 'consumes': cons, 'multi': False})
        return out

    shared_o = compile_step('shared_o', 'obj/common/shared.o', 'common/shared.c')
    a_o = compile_step('a_o', 'obj/a.o', 'a.c')
    b_o = compile_step('b_o', 'obj/nested/dir/b.o', 'lib/b.c')
    e1_o = compile_step('e1_o', 'obj/e1.o', 'e1.c', with_pch=coin(0.7))
    e2_o = compile_step('e2_o', 'obj/e2.o', 'e2.c')
    L.append("la = static_library('lib/a', files=[a_o])")
    G.append({'out': 'lib/liba.a', 'outs': ['lib/liba.a'], 'consumes': [a_o], 'multi': False})
    # libs= on a static library: archiving b does not read liba.a; what links against b gets liba.a as well
    L.append("lb = static_library('lib/nested/b', files=[b_o], libs=[la])")
    G.append({'out': 'lib/nested/libb.a', 'outs': ['lib/nested/libb.a'], 'consumes': [b_o], 'multi': False,
              'optional': ['lib/liba.a']})
    kw, cons = '', [e1_o, shared_o, 'lib/nested/libb.a', 'lib/liba.a']
    if coin(0.6):
        kw = ", extra_deps=['e1.dep']"
        cons.append(src('e1.dep'))
    L.append("e1 = executable('bin/e1', files=[e1_o, shared_o], libs=[lb]%s)" % kw)
    G.append({'out': 'bin/e1', 'outs': ['bin/e1'], 'consumes': cons, 'multi': False})
    L.append("e2 = executable('bin/deep/e2', files=[e2_o, shared_o])")
    G.append({'out': 'bin/deep/e2', 'outs': ['bin/deep/e2'], 'consumes': [e2_o, shared_o], 'multi': False})
    defaults = ['e1', 'e2']
    if coin(0.7):
        kw, cons = '', [src('data.txt')]
        if coin(0.6):
            kw = ", extra_deps=['data.dep']"
            cons.append(src('data.dep'))
        L.append("cp = copy_file('out/a/copy.txt', 'data.txt'%s)" % kw)
        G.append({'out': 'out/a/copy.txt', 'outs': ['out/a/copy.txt'], 'consumes': cons, 'multi': False, 'real_tool': True, 'mode': 'copy'})
        defaults.append('cp')
    def link_step(var, out, srcvar, srcout, mode, consumer=True):
        """copy_file in the given mode (the real cp / ln run, 'real_tool') and, usually, a step that consumes the copy or
        link: whatever is downstream of a link is downstream of the file behind it"""
        L.append("%s = copy_file(%r, %s, mode=%r)" % (var, out, srcvar, mode))
        G.append({'out': out, 'outs': [out], 'consumes': [srcout], 'multi': False, 'real_tool': True, 'mode': mode})
        defaults.append(var)
        if consumer:
            uout = 'use/%s.out' % var
            if coin():
                L.append("use_%s = build_step(%r, cmd=[%r, '-o', %r, 'use', %s])" % (var, uout, rec, uout, var))
            else:
                L.append("use_%s = build_step(%r, cmd=[%r, '-o', %r, 'use'], files=[%s])" % (var, uout, rec, uout, var))
            G.append({'out': uout, 'outs': [uout], 'consumes': [out], 'multi': False})
            defaults.append('use_' + var)

    if multi:
        # consumers of single outputs of the multi-output step
        for j in sorted(rng.sample(range(len(multi)), rng.randint(1, len(multi)))):
            out = 'use/m%d.out' % j
            if coin():
                link_step('u%d' % j, out, 'bs[%d]' % j, multi[j], rng.choice(['copy', 'copy', 'symlink', 'hardlink']), consumer=coin(0.4))
                continue
            L.append("u%d = build_step(%r, cmd=[%r, '-o', %r, 'use', bs[%d]])" % (j, out, rec, out, j))
            G.append({'out': out, 'outs': [out], 'consumes': [multi[j]], 'multi': False})
            defaults.append('u%d' % j)
        if coin(0.4):
            defaults.append('*bs')
    # links to GENERATED files in every mode, in the directory of the file and in other (nested) directories, a link to a
    # link, and consumers of each; a symbolic link is always among them
    lk = rng.choice(['gen/lk/data.txt', 'lkdata.txt'])
    L.append("lk = build_step(%r, cmd=[%r, '-o', %r, 'lk'], files=['lk.in'])" % (lk, rec, lk))
    G.append({'out': lk, 'outs': [lk], 'consumes': [src('lk.in')], 'multi': False})
    ln_s = rng.choice(['links/data.lnk', 'gen/lk/data.lnk', 'links/deep/er/data.lnk'])
    link_step('ln_s', ln_s, 'lk', lk, 'symlink')
    for mode in rng.sample(['hardlink', 'copy', 'symlink'], rng.randint(0, 2)):
        link_step('ln_' + mode[0] + '2', 'links2/data.' + mode, 'lk', lk, mode, consumer=coin(0.7))
    if coin():
        link_step('ln_ss', 'links/chain.lnk', 'ln_s', ln_s, 'symlink')
    # steps with SEVERAL command lines (cmds=[line, line, ...]) whose file objects - source files and generated files - are
    # named in different lines: the first only, a middle one only, the last only, the first and the last. Whichever line
    # names a file, the step consumes it. (Only the last line creates the output.)
    gen_objs = [('lk', lk)] + ([('conf', conf)] if conf else []) + ([('bs[%d]' % j, o) for j, o in enumerate(multi)] if multi else [])
    for v in range(rng.randint(1, 2)):
        nl = rng.choice([2, 3, 3])
        out = rng.choice(['ml/', 'ml/deep/', '']) + 'lines%d.out' % v
        lines = [[repr(rec), repr('ml%d-line%d' % (v, j))] for j in range(nl)]
        lines[-1] += [repr('-o'), repr(out)]
        places = [[0], [0, nl - 1], [nl - 1]] + ([[1]] if nl == 3 else [[0]])
        rng.shuffle(places)
        cons = []
        # at least: a source file and a generated file outside the last line, something named twice, something in the last
        objs = [('src', None), ('gen', rng.choice(gen_objs))] + [rng.choice([('src', None), ('gen', rng.choice(gen_objs))])
                                                                 for _ in range(rng.randint(1, 2))]
        srcplaces = [places[0], places[1]] + [rng.choice(places) for _ in objs[2:]]      # (only one placement is last-line-only)
        for k, ((what, g), where) in enumerate(zip(objs, srcplaces)):
            if what == 'src':
                f = 'ml/in%d_%d.dat' % (v, k)
                L.append("ml_in%d_%d = generic_file(%r)" % (v, k, f))
                var, cname = 'ml_in%d_%d' % (v, k), src(f)
            else:
                var, cname = g
            for j in where:
                lines[j].append(var)
            if cname not in cons:
                cons.append(cname)
        L.append("ml%d = build_step(%r, cmds=[%s])" % (v, out, ', '.join('[%s]' % ', '.join(l) for l in lines)))
        G.append({'out': out, 'outs': [out], 'consumes': cons, 'multi': False,
                  'lines': [[x for x in l[2:] if not x.startswith("'")] for l in lines]})
        defaults.append('ml%d' % v)
    # a versioned shared library (real file, soname link, development link: bfg creates the two links as symlink-mode
    # copies) and an executable that links it
    if coin(0.8):
        v_o = compile_step('v_o', 'obj/v.o', 'vlib/v.c')
        ver = rng.choice([('1.2.3', '1'), ('2.0', '2'), ('0.9.10', '0.9')])
        L.append("lv = shared_library('lib/v', files=[v_o], version=%r, soversion=%r)" % ver)
        real, soname, dev = 'lib/libv.so.' + ver[0], 'lib/libv.so.' + ver[1], 'lib/libv.so'
        G.append({'out': real, 'outs': [real], 'consumes': [v_o], 'multi': False})
        G.append({'out': soname, 'outs': [soname], 'consumes': [real], 'multi': False, 'real_tool': True, 'mode': 'symlink'})
        G.append({'out': dev, 'outs': [dev], 'consumes': [soname], 'multi': False, 'real_tool': True, 'mode': 'symlink'})
        e3_o = compile_step('e3_o', 'obj/e3x.o', 'e3x.c')
        L.append("e3 = executable('bin/e3x', files=[e3_o], libs=[lv])")
        G.append({'out': 'bin/e3x', 'outs': ['bin/e3x'], 'consumes': [e3_o, dev], 'multi': False})
        defaults.append('e3')
    L.append("default(%s)" % ', '.join(defaults))
    return p


def graph_downstream(graph, name):
    """Primary outputs of the steps that must re-run when `name` changes, from the declared DAG alone."""
    dirty, changed = {name}, True
    ran = set()
    while changed:
        changed = False
        for st in graph:
            if st['out'] not in ran and dirty & set(st['consumes']):
                ran.add(st['out'])
                dirty |= set(st['outs'])
                changed = True
    return ran
