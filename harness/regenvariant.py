"""Which variant of builtins/find.py does the tree under test contain?  (shared by the C10 and C08 checks)

Two repairs of builtins/find.py are switchable in the models (State/Crash.v `variant`, State/Regen.v `fxc`):
  F1 / dnc    find_check_cache returns (= full regeneration) when .bfg_find_cache is strictly newer than the build file
  F2 / adeps  write_depfile writes .bfg_find_deps.tmp and os.replace()s it onto .bfg_find_deps
The variant is detected behaviourally on a tiny real project, not by reading the source:
  F2: the mutation trace of a real `bfg9000 regenerate` contains a rename onto .bfg_find_deps;
  F1: with nothing edited and the cache file's mtime moved past the Makefile's, `bfg9000 regenerate --lazy` rewrites the
      Makefile (repaired) or only touches it (old); with EQUAL mtimes it must skip in both variants (strict comparison).
"""
import json
import os

from . import common, project

INJECT = os.path.join(common.VERIF, 'harness', 'inject')
F1_ID = 'C10-findcache-saved-before-buildfile'
F2_ID = 'C10-find-depfile-truncated-in-place'


def trace_env(build, trace):
    return {'BFG9000_VERIF': '1', 'PYTHONPATH': INJECT + ':' + common.REPO, 'BFG9000_VERIF_ROOT': build,
            'BFG9000_VERIF_TRACE': trace}


def first_proc_ops(trace):
    ops, seen = [], False
    if not os.path.exists(trace):
        return ops
    for line in open(trace):
        r = json.loads(line)
        if 'proc' in r:
            if seen:
                break
            seen = True
        elif seen:
            ops.append(r)
    return ops


def _lazy(s, trace):
    if os.path.exists(trace):
        os.remove(trace)
    rc, out = project.run_bfg(['regenerate', '--lazy', s.build], cwd=s.build, extra_env=trace_env(s.build, trace))
    ops = first_proc_ops(trace)
    wrote = any(o['op'] == 'open' and o['path'] == 'Makefile' for o in ops)
    touched = any(o['op'] == 'utime' and o['path'] == 'Makefile' for o in ops)
    return rc, out, ('run' if wrote else 'skip' if touched else 'neither')


def detect():
    """-> {'adeps': bool, 'dnc': bool, 'equal': 'skip'|'run'|..., 'newer': ..., 'evidence': {...}}; raises RuntimeError when
    the tiny project cannot be configured at all."""
    with project.Scratch('rvar') as s:
        project.write_tree(s.src, {'build.bfg': "project('p', '1.0')\nsrcs = find_files('src/*.c')\n"
                                                "executable('prog', files=srcs)\n",
                                   'src/a.c': 'int main(){return 0;}\n'})
        rc, out = project.configure(s.src, s.build)
        if rc != 0:
            raise RuntimeError('variant probe: the probe project does not configure: ' + out[-400:])
        trace = os.path.join(s.root, 'trace.jsonl')
        rc, out = project.run_bfg(['regenerate', s.build], cwd=s.build, extra_env=trace_env(s.build, trace))
        ops = first_proc_ops(trace)
        depops = [(o['op'], o['path'], o.get('dst')) for o in ops if '.bfg_find_deps' in (o['path'], o.get('dst'))
                  or o['path'].startswith('.bfg_find_deps')]
        adeps = any(o['op'] == 'rename' and o.get('dst') == '.bfg_find_deps' for o in ops)
        mk, cache = os.path.join(s.build, 'Makefile'), os.path.join(s.build, '.bfg_find_cache')
        st = os.stat(mk)
        os.utime(cache, ns=(st.st_atime_ns, st.st_mtime_ns))
        _, out_eq, equal = _lazy(s, trace)
        st = os.stat(mk)
        os.utime(cache, ns=(st.st_atime_ns, st.st_mtime_ns + 10 ** 9))
        _, out_nw, newer = _lazy(s, trace)
        return {'adeps': adeps, 'dnc': newer == 'run', 'equal': equal, 'newer': newer,
                'evidence': {'regenerate_rc': rc, 'depfile_ops': depops, 'lazy_equal_mtime': equal, 'lazy_cache_newer': newer,
                             'out': (out_eq + out_nw)[-300:]}}


def report(rep, v):
    """Common sanity of a detection result.  Returns False when the probe itself is inconsistent with every model variant."""
    ok = True
    if v['newer'] not in ('run', 'skip') or v['equal'] != 'skip':
        rep.fail('variant probe: regenerate --lazy on an unedited tree: cache newer than the Makefile -> %s, equal mtimes -> %s; '
                 'the models expect run|skip and skip (strict comparison in find_check_cache)' % (v['newer'], v['equal']),
                 {'obligation': 'W:variant-probe', 'probe': v}, found_input=False)
        ok = False
    rep.stage('variant', F1_distrust_newer_cache=v['dnc'], F2_atomic_depfile=v['adeps'],
              model=('v_repaired' if v['dnc'] and v['adeps'] else 'v_old' if not v['dnc'] and not v['adeps'] else 'mixed'),
              evidence=v['evidence'])
    return ok
