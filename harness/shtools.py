"""Runners for the real interpreting tools (dash, GNU Make) with the argv recorder stub."""
import os
import subprocess
import shutil
from . import common

ARGVREC = os.path.join(common.VERIF, 'bin', 'argvrec')


def unhex(h):
    return '' if h == '-' else bytes.fromhex(h).decode('utf-8', 'surrogateescape')


def parse_rec(text):
    """Recorder output -> list of dicts {cwd, argv (without argv0), env}."""
    out = []
    for line in text.split('\n'):
        if not line.strip():
            continue
        left, _, right = line.partition(' |')
        toks = left.split(' ')
        env = {}
        for item in right.split():
            k, _, v = item.partition('=')
            env[k] = unhex(v) if v else ''
        out.append({'cwd': unhex(toks[0]), 'argv0': unhex(toks[1]) if len(toks) > 1 else None,
                    'argv': [unhex(t) for t in toks[2:]], 'env': env})
    return out


def dash_run(line, envnames=(), timeout=10, cwd=None, extra_env=None):
    """Run `REC <line>` under dash -c.  Returns (returncode, [records])."""
    e = {'PATH': '/usr/bin:/bin', 'REC': ARGVREC, 'ARGVREC_ENV': ','.join(envnames), 'LC_ALL': 'C.UTF-8'}
    if extra_env:
        e.update(extra_env)
    p = subprocess.run(['dash', '-c', line], capture_output=True, env=e, timeout=timeout, cwd=cwd)
    return p.returncode, parse_rec(p.stdout.decode('utf-8', 'surrogateescape')), p.stderr.decode('utf-8', 'replace')


def dash_words(line):
    """argv that dash delivers for the single simple command `"$REC" <line>`; None when dash fails or
    when it runs anything other than exactly one recorder invocation."""
    rc, recs, _ = dash_run('"$REC" ' + line)
    if rc != 0 or len(recs) != 1:
        return None
    return recs[0]['argv']


def make_run(makefile_text, target=None, workdir=None, envnames=(), extra_env=None, args=(), timeout=30,
             files=None):
    """Write makefile_text to a scratch dir, run real make, return (rc, records, stdout+stderr)."""
    own = workdir is None
    d = workdir or common.scratch('mk')
    try:
        with open(os.path.join(d, 'Makefile'), 'w') as f:
            f.write(makefile_text)
        for name, content in (files or {}).items():
            p = os.path.join(d, name)
            os.makedirs(os.path.dirname(p), exist_ok=True)
            with open(p, 'w') as f:
                f.write(content)
        log = os.path.join(d, '.argvrec.log')
        if os.path.exists(log):
            os.remove(log)
        e = {'PATH': '/usr/bin:/bin', 'REC': ARGVREC, 'ARGVREC_ENV': ','.join(envnames), 'ARGVREC_OUT': log,
             'LC_ALL': 'C.UTF-8'}
        if extra_env:
            e.update(extra_env)
        cmd = ['make', '-f', 'Makefile', '--no-print-directory'] + list(args) + ([target] if target else [])
        p = subprocess.run(cmd, capture_output=True, env=e, timeout=timeout, cwd=d)
        recs = parse_rec(open(log, encoding='utf-8', errors='surrogateescape').read()) if os.path.exists(log) else []
        return p.returncode, recs, (p.stdout + p.stderr).decode('utf-8', 'replace')
    finally:
        if own:
            shutil.rmtree(d, ignore_errors=True)
