#!/venv/bin/python
"""Runs the repository's pinned baseline (guard off) and compares with BASELINE.json's stable_pass list.
Usage: tools_baseline.py [repo_dir]"""
import json, subprocess, sys, tempfile, os, xml.etree.ElementTree as ET
repo = sys.argv[1] if len(sys.argv) > 1 else '/repo'
b = json.load(open('/root/.vp/BASELINE.json'))
want = set(b['stable_pass'])
fd, xml = tempfile.mkstemp(suffix='.xml', dir='/var/tmp'); os.close(fd)
env = dict(os.environ); env.pop('BFG9000_VERIF', None)
subprocess.run(['/venv/bin/python', '-m', 'pytest', '-ra', '-q', '-p', 'no:cacheprovider', '--timeout=900',
                '--continue-on-collection-errors', '--junitxml=' + xml], cwd=repo, env=env,
               stdout=subprocess.DEVNULL, stderr=subprocess.DEVNULL)
passed = set()
for tc in ET.parse(xml).getroot().iter('testcase'):
    if not any(c.tag in ('failure', 'error', 'skipped') for c in tc):
        passed.add('%s::%s' % (tc.get('classname'), tc.get('name')))
os.remove(xml)
missing = sorted(want - passed)
print('stable_pass: %d, passing now: %d, missing: %d' % (len(want), len(want & passed), len(missing)))
for m in missing[:40]:
    print('  MISSING', m)
sys.exit(1 if missing else 0)
