#!/usr/bin/env python3
"""Regenerates the generated tables of DESIGN.md (theorem inventory, fixed / open findings) between their markers."""
import re, json, glob, os
V = os.path.dirname(os.path.abspath(__file__))
d = open(os.path.join(V, 'DESIGN.md')).read()
rows = []
for f in sorted(glob.glob(os.path.join(V, 'coq/props/C*.v'))):
    t = open(f).read()
    names = re.findall(r'^\s*(?:Theorem|Lemma|Corollary)\s+(\w+)', t, re.M)
    rows.append((os.path.basename(f)[:-2], names))
inv = '| property | theorems | names (prefix `Cxx_` omitted) |\n|---|---|---|\n' + \
    '\n'.join('| %s | %d | %s |' % (p, len(n), ', '.join('`%s`' % x[len(p) + 1:] for x in n)) for p, n in rows) + '\n'
kf = json.load(open(os.path.join(V, 'known_findings.json')))
esc = lambda s: s.replace('|', '\\|').replace('\n', ' ')
fixed = '| property | finding | commit | what failed |\n|---|---|---|---|\n' + \
    '\n'.join('| %s | %s | %s | %s |' % (k['property'], k['id'], k.get('commit', ''), esc(k['what'][:230])) for k in kf if k['status'] == 'fixed') + '\n'
openf = '| property | finding | class | what fails |\n|---|---|---|---|\n' + \
    '\n'.join('| %s | %s | `%s` | %s |' % (k['property'], k['id'], k['class'], esc(k['what'][:260])) for k in kf if k['status'] == 'open') + '\n'
NOTES = json.load(open(os.path.join(V, 'seeded', 'strengthening_notes.json')))
seeds = '| seed | change | needs to manifest | first run (quick) | current checks (quick) | strengthening it led to |\n|---|---|---|---|---|---|\n'
def fmt(r):
    if not r: return '—'
    if r.get('violations', 0) == 0: return '**missed**'
    return 'caught with failing input' if r.get('with_input', 0) else 'caught, `no-failing-input-found`'
for m in sorted(glob.glob(os.path.join(V, 'seeded', 'seed-*', 'meta.json'))):
    x = json.load(open(m)); sid = x['seed_id']
    seeds += '| %s | %s | %s | %s | %s | %s |\n' % (sid, esc(x.get('summary', ''))[:200], esc(x.get('what_it_needs_to_manifest', ''))[:220],
        fmt(x.get('detection', {}).get('quick')), fmt(x.get('detection_latest')), esc(NOTES.get(sid, '—')))
for tag, txt in (('INVENTORY', inv), ('FIXED', fixed), ('OPEN', openf), ('SEEDS', seeds)):
    d = re.sub(r'<!-- GEN:%s -->\n.*?<!-- /GEN:%s -->' % (tag, tag), '<!-- GEN:%s -->\n%s<!-- /GEN:%s -->' % (tag, txt.replace('\\', '\\\\'), tag), d, flags=re.S)
total = sum(len(n) for _, n in rows)
d = re.sub(r'\d+ property theorems in `coq/props', '%d property theorems in `coq/props' % total, d)
open(os.path.join(V, 'DESIGN.md'), 'w').write(d)
print('theorems', total, 'open', sum(1 for k in kf if k['status'] == 'open'), 'fixed', sum(1 for k in kf if k['status'] == 'fixed'))
