#!/bin/sh
# usage: tools_merge.sh <agent-id> "<message>"  - merge an agent worktree branch, resolve generated-file conflicts, clean up
set -e
cd /verif
b=$1
git checkout -- evidence 2>/dev/null || true
git merge --no-edit worktree-agent-$b 2>&1 | grep -E "CONFLICT|Merge made|Already" || true
for f in $(git diff --name-only --diff-filter=U); do
  case "$f" in evidence/*|known_findings.json|MANIFEST.json) git checkout --ours "$f"; git add "$f";; *) echo "UNRESOLVED $f"; exit 1;; esac
done
git commit -qm "Merge agent branch $b: $2" 2>/dev/null || true
python3 tools_mkmanifest.py
git worktree unlock .claude/worktrees/agent-$b 2>/dev/null || true
git worktree remove --force .claude/worktrees/agent-$b
git branch -D worktree-agent-$b -q
git add -A; git commit -qm "manifest after merging $b" -q || true
