#!/usr/bin/env python3
"""Regenerates MANIFEST.json from the table below (kept as code so it stays consistent)."""
import json, os
HERE = os.path.dirname(os.path.abspath(__file__))
BASE_OFF = "cd /repo && /venv/bin/python -m pytest -ra -q -p no:cacheprovider --timeout=900 --continue-on-collection-errors"
import glob
CHECKS = {'claimed': {}, 'not_applicable': {}, 'notes': 'See DESIGN.md. Every check: lint of the Coq development, full make (no-op when current), fresh coqc of coq/props/<id>.v with Print Assumptions parsed, W-correspondence (Python implementation from /repo vs extracted Gallina model, sample re-evaluated by vm_compute), R-validation against the real tool where it exists, and a direct search for failing inputs on the implementation.'}
for f in sorted(glob.glob(os.path.join(HERE, 'manifest.d', 'C*.json'))):
    CHECKS['claimed'][os.path.basename(f)[:-5]] = json.load(open(f))
# known findings: merged from findings.d/*.json (lists of entries) at development time, never at run time
kf = []
for f in sorted(glob.glob(os.path.join(HERE, 'findings.d', 'C*.json'))):
    for e in json.load(open(f)):
        if e.get('status') == 'fixed':
            e['line'] = 'fixed: property=%s %s %s' % (e['property'], e.get('commit', '?'), e['what'])
        kf.append(e)
json.dump(kf, open(os.path.join(HERE, 'known_findings.json'), 'w'), indent=1)
props = [json.loads(l) for l in open(os.path.join(HERE, 'properties.jsonl'))]
ids = [p['id'] for p in props]
checks = []
for pid in ids:
    c = CHECKS['claimed'].get(pid)
    if not c:
        continue
    checks.append({
        'property_id': pid,
        'quick_cmd': './check %s --tier quick' % pid,
        'thorough_cmd': './check %s --tier thorough' % pid,
        'evidence_file': 'evidence/%s.json' % pid,
        'replay_cmd_template': './check %s --replay {path}' % pid,
        'engine': 'coq-model+correspondence',
        'level_claimed': {'category': 'proof', 'text': c['text'], 'design_ref': c.get('design_ref', 'DESIGN.md section 4 ' + pid)},
        'level_note': c['note'],
        'technique': c.get('technique', 'machine-checked proof in Coq 8.16 over a hand-written Gallina model, tied to /repo by a differential correspondence check'),
    })
na = [{'property_id': pid, 'reason': CHECKS['not_applicable'].get(pid, 'not yet covered by the Coq development in this revision (no theorem and no correspondence harness built yet); technique is applicable, see DESIGN.md section 4')} for pid in ids if pid not in CHECKS['claimed']]
m = {
    'version': 1,
    'setup_cmd': 'cd coq && ./build.sh',
    'hooks': {'guard': 'BFG9000_VERIF', 'enable': 'no source hooks: the harness imports /repo directly and injects faults from outside via harness/inject (PYTHONPATH) when BFG9000_VERIF=1',
              'baseline_off_cmd': BASE_OFF, 'source_commits': [], 'add_only': True},
    'engines': [{'name': 'coq-model+correspondence', 'path': 'coq/ harness/ check', 'serves_properties': [c['property_id'] for c in checks],
                 'kind_free_text': 'Coq 8.16.1 theorems over hand-written Gallina models (coq/theories, statements in coq/props); models extracted to OCaml (bin/model) and run against the Python implementation imported from /repo and against the real interpreting tools (dash, GNU Make, pkgconf, gcc)'}],
    'checks': checks,
    'notes': CHECKS.get('notes', ''),
    'not_applicable': na,
}
json.dump(m, open(os.path.join(HERE, 'MANIFEST.json'), 'w'), indent=1)
print('claimed', [c['property_id'] for c in checks])
