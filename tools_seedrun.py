#!/usr/bin/env python3
"""Re-run every seeded change in seeded/ against the current checks (quick tier) and record the outcome in meta.json
('detection_latest').  Uses a scratch worktree of /repo that is removed afterwards; restores the evidence files by
re-running the affected checks on the unchanged tree at the end."""
import json, os, subprocess, sys, glob
V = os.path.dirname(os.path.abspath(__file__))
WT = os.environ.get('SEEDRUN_WT', '/var/tmp/seedrun_wt')
only = sys.argv[1:]
props = set()
summary = []
for d in sorted(glob.glob(os.path.join(V, 'seeded', 'seed-*'))):
    sid = os.path.basename(d)
    if only and sid not in only:
        continue
    meta = json.load(open(os.path.join(d, 'meta.json')))
    prop = meta['property']
    subprocess.run(['git', '-C', '/repo', 'worktree', 'remove', '--force', WT], capture_output=True)
    subprocess.run(['git', '-C', '/repo', 'worktree', 'add', '-q', WT, 'HEAD'], check=True)
    try:
        r = subprocess.run(['git', '-C', WT, 'apply', os.path.join(d, 'patch.diff')], capture_output=True, text=True)
        if r.returncode != 0:
            res = {'applies': False, 'error': r.stderr[-300:]}
        else:
            p = subprocess.run([os.path.join(V, 'check'), prop], cwd=V, env=dict(os.environ, VERIF_REPO=WT), capture_output=True, text=True)
            lines = [l for l in p.stdout.split('\n') if l.startswith('VIOLATION')]
            res = {'applies': True, 'exit': p.returncode, 'violations': len(lines),
                   'with_input': sum(1 for l in lines if 'no-failing-input-found' not in l),
                   'first': p.stdout.split('\n')[1][:300] if lines else ''}
            props.add(prop)
    finally:
        subprocess.run(['git', '-C', '/repo', 'worktree', 'remove', '--force', WT], capture_output=True)
    meta[os.environ.get('SEEDRUN_KEY', 'detection_latest')] = res
    json.dump(meta, open(os.path.join(d, 'meta.json'), 'w'), indent=1)
    summary.append((sid, res.get('exit'), res.get('violations'), res.get('with_input')))
    print(sid, res.get('exit'), res.get('violations'), res.get('with_input'), flush=True)
for prop in sorted(props):
    subprocess.run([os.path.join(V, 'check'), prop], cwd=V, capture_output=True)
subprocess.run(['git', '-C', '/repo', 'worktree', 'prune'])
