#!/usr/bin/env python3
"""Confirm a seeded change (scratch worktree with the change applied) and run our check against it.
usage: tools_seedtest.py <seed-id> <property> <worktree> [--thorough]
Stores /verif/seeded/<seed-id>/{patch.diff,demo.*,meta.json}."""
import json, os, shutil, subprocess, sys
sid, prop, wt = sys.argv[1:4]
thorough = '--thorough' in sys.argv
V = os.path.dirname(os.path.abspath(__file__))
def run(cmd, **kw):
    return subprocess.run(cmd, shell=isinstance(cmd, str), capture_output=True, text=True, **kw)
demo = 'demo.py' if os.path.exists(os.path.join(wt, 'demo.py')) else 'demo.sh'
democmd = ('PYTHONPATH=%s /venv/bin/python demo.py' % wt) if demo == 'demo.py' else 'PYTHONPATH=%s sh demo.sh' % wt
patch = run('git -C %s diff -- bfg9000' % wt).stdout
assert patch.strip(), 'no change applied'
base = run('/venv/bin/python %s/tools_baseline.py %s' % (V, wt))
with_rc = run(democmd, cwd=wt).returncode
# NOTE: refs/stash is shared by all worktrees of a repository - never use git stash here
PF = '/var/tmp/_seed_patch_%s.diff' % sid
open(PF, 'w').write(patch)
assert run('git -C %s apply -R %s' % (wt, PF)).returncode == 0
without_rc = run(democmd, cwd=wt).returncode
assert run('git -C %s apply %s' % (wt, PF)).returncode == 0
assert run('git -C %s diff -- bfg9000' % wt).stdout == patch
env = dict(os.environ, VERIF_REPO=wt)
res = {}
for tier in (['quick', 'thorough'] if thorough else ['quick']):
    p = run([os.path.join(V, 'check'), prop, '--tier', tier], cwd=V, env=env)
    lines = [l for l in p.stdout.split('\n') if l.startswith('VIOLATION')]
    res[tier] = {'exit': p.returncode, 'violations': len(lines), 'first': lines[:2],
                 'with_input': sum(1 for l in lines if 'no-failing-input-found' not in l)}
# restore evidence for the unchanged tree
subprocess.run([os.path.join(V, 'check'), prop], cwd=V, capture_output=True)
out = os.path.join(V, 'seeded', sid)
os.makedirs(out, exist_ok=True)
open(os.path.join(out, 'patch.diff'), 'w').write(patch)
shutil.copy(os.path.join(wt, demo), os.path.join(out, demo))
meta = {}
if os.path.exists(os.path.join(wt, 'meta.json')):
    try: meta = json.load(open(os.path.join(wt, 'meta.json')))
    except Exception: meta = {}
meta.update({'seed_id': sid, 'property': prop, 'confirmed_by_coordinator': {
    'baseline': base.stdout.strip().split('\n')[0], 'demo_with_change_exit': with_rc, 'demo_without_change_exit': without_rc,
    'ran': 'tools_baseline.py <worktree>; demo with and without the change (git stash); VERIF_REPO=<worktree> ./check %s' % prop},
    'detection': res})
json.dump(meta, open(os.path.join(out, 'meta.json'), 'w'), indent=1)
print(json.dumps({'baseline': base.stdout.strip().split('\n')[0], 'with': with_rc, 'without': without_rc, 'detection': res}, indent=1))
